package absnfs

// vf_linearize.go: driver for C29 (specs/Linearize).
//
// Small concurrent histories through NFSProcedureHandler.HandleCall over the thread-safe vfs
// backend, built with -race. Each history: a small initial tree (built sequentially through the
// handlers), then 2-4 client goroutines x 2-4 requests. Every request is recorded with its
// invocation and response sequence numbers (one atomic counter; real-time order = resp(a) <
// inv(b)), its arguments and its decoded results; after all goroutines joined the backend tree,
// the handle table (both maps) and the key sets of the attribute and directory caches are read
// in-package. One ndjson line per history; LinearizeTrace.tla searches for a linearization.
//
// Interleavings: the vfs Gate hook (before every backend operation) and a thin wrapper around
// the backend (after every backend operation) inject seeded yields, spins and short sleeps.
//
//   mode "distinct": every client mutates only names it owns (directories and directory
//                    handles are shared): linearizability + final-state clause are decided
//   mode "contend":  all clients work on the same names and handles: only data races, panics,
//                    deadlocks and the final-state clause are decided
//   directed scenarios (VF_LIN_DIRECTED=1): deterministic schedules driven by blocking gates,
//                    the reproducers of the listed findings

import (
	"bytes"
	"fmt"
	"io/fs"
	"os"
	"path"
	"runtime"
	"sort"
	"strings"
	"sync"
	"sync/atomic"
	"testing"
	"time"

	"github.com/absfs/absfs"
)

// ---------------------------------------------------------------- backend wrapper (post-gates)

// vfzFS delegates to vfs and calls post(op, path) after every backend operation returned
// (vfs itself calls Gate before every operation).
type vfzFS struct {
	*vfsFS
	post func(op, p string)
}

func (f *vfzFS) after(op, p string) {
	if g := f.post; g != nil {
		g(op, p)
	}
}

func (f *vfzFS) OpenFile(name string, flag int, perm os.FileMode) (absfs.File, error) {
	fl, err := f.vfsFS.OpenFile(name, flag, perm)
	f.after("OpenFile", name)
	if err != nil {
		return nil, err
	}
	return &vfzFile{File: fl, fs: f, name: name}, nil
}
func (f *vfzFS) Open(name string) (absfs.File, error) { return f.OpenFile(name, os.O_RDONLY, 0) }
func (f *vfzFS) Create(name string) (absfs.File, error) {
	return f.OpenFile(name, os.O_RDWR|os.O_CREATE|os.O_TRUNC, 0666)
}
func (f *vfzFS) Mkdir(name string, perm os.FileMode) error {
	err := f.vfsFS.Mkdir(name, perm)
	f.after("Mkdir", name)
	return err
}
func (f *vfzFS) Remove(name string) error {
	err := f.vfsFS.Remove(name)
	f.after("Remove", name)
	return err
}
func (f *vfzFS) Rename(o, n string) error {
	err := f.vfsFS.Rename(o, n)
	f.after("Rename", o)
	return err
}
func (f *vfzFS) Stat(name string) (os.FileInfo, error) {
	i, err := f.vfsFS.Stat(name)
	f.after("Stat", name)
	return i, err
}
func (f *vfzFS) Lstat(name string) (os.FileInfo, error) {
	i, err := f.vfsFS.Lstat(name)
	f.after("Lstat", name)
	return i, err
}
func (f *vfzFS) Chmod(name string, mode os.FileMode) error {
	err := f.vfsFS.Chmod(name, mode)
	f.after("Chmod", name)
	return err
}
func (f *vfzFS) Chown(name string, uid, gid int) error {
	err := f.vfsFS.Chown(name, uid, gid)
	f.after("Chown", name)
	return err
}
func (f *vfzFS) Lchown(name string, uid, gid int) error {
	err := f.vfsFS.Lchown(name, uid, gid)
	f.after("Lchown", name)
	return err
}
func (f *vfzFS) Chtimes(name string, a, m time.Time) error {
	err := f.vfsFS.Chtimes(name, a, m)
	f.after("Chtimes", name)
	return err
}
func (f *vfzFS) Truncate(name string, size int64) error {
	err := f.vfsFS.Truncate(name, size)
	f.after("Truncate", name)
	return err
}
func (f *vfzFS) Symlink(o, n string) error {
	err := f.vfsFS.Symlink(o, n)
	f.after("Symlink", n)
	return err
}
func (f *vfzFS) Readlink(name string) (string, error) {
	s, err := f.vfsFS.Readlink(name)
	f.after("Readlink", name)
	return s, err
}
func (f *vfzFS) ReadDir(name string) ([]fs.DirEntry, error) {
	e, err := f.vfsFS.ReadDir(name)
	f.after("ReadDir", name)
	return e, err
}

type vfzFile struct {
	absfs.File
	fs   *vfzFS
	name string
}

func (h *vfzFile) ReadAt(b []byte, off int64) (int, error) {
	n, err := h.File.ReadAt(b, off)
	h.fs.after("ReadAt", h.name)
	return n, err
}
func (h *vfzFile) WriteAt(b []byte, off int64) (int, error) {
	n, err := h.File.WriteAt(b, off)
	h.fs.after("WriteAt", h.name)
	return n, err
}
func (h *vfzFile) Readdir(n int) ([]os.FileInfo, error) {
	e, err := h.File.Readdir(n)
	h.fs.after("Readdir", h.name)
	return e, err
}
func (h *vfzFile) Sync() error {
	err := h.File.Sync()
	h.fs.after("Sync", h.name)
	return err
}

var _ absfs.SymlinkFileSystem = (*vfzFS)(nil)

// ---------------------------------------------------------------- environment, thin caller

type vfzCfg struct {
	TTL  string `json:"ttl"`  // "min" (1 ns) or "def" (package defaults)
	Neg  bool   `json:"neg"`  // negative-lookup caching
	Dir  bool   `json:"dir"`  // directory cache
	Mode string `json:"mode"` // "distinct", "contend", "directed"
}

type vfzEnv struct {
	n     *AbsfsNFS
	h     *NFSProcedureHandler
	vfs   *vfsFS
	wfs   *vfzFS
	seq   atomic.Int64 // global event sequence
	prog  atomic.Int64 // completed requests (watchdog)
	on    atomic.Bool  // random gating enabled
	salt  uint64
	gctr  atomic.Uint64
	stop  atomic.Pointer[vfzStop]
	rec   atomic.Pointer[vfzRecorder]
	sched atomic.Pointer[vfzSched]
	bar   atomic.Pointer[vfzBarrier]
	fidMu sync.Mutex
	fids  map[uint64]string
}

func vfzNewEnv(t testing.TB, cfg vfzCfg, salt uint64) *vfzEnv {
	e := &vfzEnv{salt: salt}
	e.vfs = vfNewFS()
	e.vfs.record = false
	e.wfs = &vfzFS{vfsFS: e.vfs}
	opts := ExportOptions{CacheNegativeLookups: cfg.Neg, EnableDirCache: cfg.Dir, MaxWorkers: 2}
	if cfg.TTL == "min" {
		opts.AttrCacheTimeout = time.Nanosecond
		opts.NegativeCacheTimeout = time.Nanosecond
		opts.DirCacheTimeout = time.Nanosecond
	}
	ve := vfNewEnv(t, e.wfs, opts)
	e.n, e.h = ve.n, ve.h
	e.vfs.Gate = func(op, p string) { e.gate("pre", op, p) }
	e.wfs.post = func(op, p string) { e.gate("post", op, p) }
	return e
}

// vfzStop is a one-shot blocking gate of a directed schedule: the first backend operation
// (op, path) reaching it before ("pre") or after ("post") the backend executed it signals
// reached and waits for release.
type vfzStop struct {
	when, op, p string
	reached     chan struct{}
	release     chan struct{}
	skip        atomic.Int32 // matches to let pass before the one that is held
	any         bool         // every backend-operation boundary matches (nested schedules)
}

// vfzRecorder lists the backend-operation boundaries a request passes (probe run of a nested schedule).
type vfzRecorder struct {
	mu   sync.Mutex
	list []string
}

func (e *vfzEnv) arm(when, op, p string) *vfzStop {
	skip := 0
	if i := strings.Index(p, "@"); i >= 0 { // "/d/x@1": hold the second time the operation passes
		fmt.Sscanf(p[i+1:], "%d", &skip)
		p = p[:i]
	}
	st := &vfzStop{when: when, op: op, p: p, reached: make(chan struct{}), release: make(chan struct{})}
	st.skip.Store(int32(skip))
	e.stop.Store(st)
	return st
}

// vfzBarrier aligns requests of different clients at one point of their handlers: every backend
// operation (when, op, path) waits there until n requests have arrived (arrivals are counted in
// generations of n, every client passing the point equally often), or `wait` has passed, so
// that they execute what follows - cache puts, handle allocations - at the same moment.
type vfzBarrier struct {
	when, op, p string
	n           int32
	wait        time.Duration
	ctr         atomic.Int32
}

func (e *vfzEnv) gate(when, op, p string) {
	if r := e.rec.Load(); r != nil {
		r.mu.Lock()
		r.list = append(r.list, when+" "+op+" "+p)
		r.mu.Unlock()
	}
	if sc := e.sched.Load(); sc != nil {
		sc.pass(when + " " + op + " " + p)
		return
	}
	if st := e.stop.Load(); st != nil && (st.any || st.when == when && st.op == op && st.p == p) && st.skip.Add(-1) == -1 {
		close(st.reached)
		<-st.release
		return
	}
	if b := e.bar.Load(); b != nil && b.when == when && b.op == op && b.p == p {
		target := ((b.ctr.Add(1)-1)/b.n + 1) * b.n
		t0 := time.Now() // tight spin (the waiters must leave together), bounded by b.wait
		for i := 0; b.ctr.Load() < target; i++ {
			if i&255 == 255 && time.Since(t0) > b.wait {
				break
			}
		}
		return
	}
	e.jitter()
}

// fidTok names a fileid value by a small token (fileids are 64-bit hashes).
func (e *vfzEnv) fidTok(v uint64) string {
	e.fidMu.Lock()
	defer e.fidMu.Unlock()
	if e.fids == nil {
		e.fids = map[uint64]string{}
	}
	t, ok := e.fids[v]
	if !ok {
		t = fmt.Sprintf("f%d", len(e.fids))
		e.fids[v] = t
	}
	return t
}

func vfzMix(x uint64) uint64 {
	x += 0x9e3779b97f4a7c15
	x = (x ^ (x >> 30)) * 0xbf58476d1ce4e5b9
	x = (x ^ (x >> 27)) * 0x94d049bb133111eb
	return x ^ (x >> 31)
}

// jitter: seeded choice between nothing, yields, a short spin and a short sleep.
func (e *vfzEnv) jitter() {
	if !e.on.Load() {
		return
	}
	x := vfzMix(e.salt ^ e.gctr.Add(1))
	switch v := x % 100; {
	case v < 45:
	case v < 70:
		runtime.Gosched()
	case v < 82:
		for i := uint64(0); i < 2+(x>>8)%4; i++ {
			runtime.Gosched()
		}
	case v < 93:
		d := time.Duration(1+(x>>8)%40) * time.Microsecond
		for t0 := time.Now(); time.Since(t0) < d; {
			runtime.Gosched()
		}
	default:
		time.Sleep(time.Duration(20+(x>>8)%200) * time.Microsecond)
	}
}

// call issues one NFSv3 request through HandleCall exactly as the connection loop would
// (own RPCCall / AuthContext per request; safe to use from several goroutines).
func (e *vfzEnv) call(xid uint32, prog, vers, proc uint32, args []byte) *vfNFSReply {
	ac, cred := vfRoot.authCtx()
	call := &RPCCall{Header: RPCMsgHeader{Xid: xid, MsgType: RPC_CALL, RPCVersion: 2, Program: prog, Version: vers, Procedure: proc},
		Credential: cred, Verifier: RPCVerifier{Body: []byte{}}}
	ac.Credential = &call.Credential
	rep, err := e.h.HandleCall(call, bytes.NewReader(args), ac)
	raw := &vfRaw{Xid: xid, Err: err, Reply: rep}
	out := &vfNFSReply{Raw: raw}
	if err != nil || rep == nil {
		if err == nil {
			raw.Err = fmt.Errorf("nil reply")
		}
		return out
	}
	var w bytes.Buffer
	if encErr := EncodeRPCReply(&w, rep); encErr != nil {
		raw.Err = encErr
		return out
	}
	raw.Wire = w.Bytes()
	vfParseRPCReply(raw)
	if prog == NFS_PROGRAM && !raw.Denied && raw.Accept == SUCCESS {
		out.Res = vfSch.Decode("NFS3."+vfNFSProcNames[proc], raw.Body)
	}
	return out
}

func (e *vfzEnv) mount(t testing.TB) uint64 {
	var a bytes.Buffer
	xdrEncodeString(&a, "/")
	r := e.call(1, MOUNT_PROGRAM, MOUNT_V3, 1, a.Bytes())
	b := r.Raw.Body
	if r.Raw.Err != nil || r.Raw.Denied || len(b) < 16 {
		t.Fatalf("MNT failed: %+v", r.Raw)
	}
	return uint64(b[8])<<56 | uint64(b[9])<<48 | uint64(b[10])<<40 | uint64(b[11])<<32 | uint64(b[12])<<24 | uint64(b[13])<<16 | uint64(b[14])<<8 | uint64(b[15])
}

// ---------------------------------------------------------------- projections

func vfzCap(v uint64) (int, bool) {
	if v >= 1<<30 {
		return -1, true
	}
	return int(v), false
}

// vfzTree projects the backend tree. Slim nodes (the trace spec rebuilds the CoreOps node record):
// files {p,k,d,perm}, directories {p,k,perm}, links {p,k,t,tc}. File sizes stay far below the
// 200-byte window, so size = len(d); owners are not part of the comparison (CoreOps!Norm).
func vfzTree(f *vfsFS) []M {
	out := []M{}
	for _, n := range f.Snapshot(200) {
		switch n.K {
		case "F":
			if n.Sz > 200 {
				panic("vfzTree: file larger than the logged window")
			}
			out = append(out, M{"p": n.P, "k": "F", "d": n.D, "perm": n.Perm})
		case "L":
			tc := []string{}
			if n.T != "" {
				tc = strings.Split(strings.Trim(n.T, "/"), "/")
			}
			out = append(out, M{"p": n.P, "k": "L", "t": n.T, "tc": tc})
		default:
			out = append(out, M{"p": n.P, "k": "D", "perm": n.Perm})
		}
	}
	return out
}

func vfzKindOfMode(m os.FileMode) string {
	switch {
	case m&os.ModeDir != 0:
		return "D"
	case m&os.ModeSymlink != 0:
		return "L"
	}
	return "F"
}

// vfzFinal reads, after all goroutines joined, the handle table and the cache key sets.
// Expired cache entries are only counted (the final-state clause exempts them).
func vfzFinal(n *AbsfsNFS, end time.Time) M {
	tab, byp := []M{}, []M{}
	badNodes := 0
	n.fileMap.RLock()
	for id, f := range n.fileMap.handles {
		if nd, ok := f.(*NFSNode); ok {
			tab = append(tab, M{"i": int(id), "p": vfPathSeq(nd.path)})
		} else {
			badNodes++
		}
	}
	for p, id := range n.fileMap.pathHandles {
		byp = append(byp, M{"i": int(id), "p": vfPathSeq(p)})
	}
	n.fileMap.RUnlock()
	sort.Slice(tab, func(i, j int) bool { return tab[i]["i"].(int) < tab[j]["i"].(int) })
	sort.Slice(byp, func(i, j int) bool { return byp[i]["i"].(int) < byp[j]["i"].(int) })
	attr, expired := []M{}, 0
	n.attrCache.mu.RLock()
	for p, c := range n.attrCache.cache {
		// valid iff Now().Before(expireAt); the instant of expiry itself counts as expired
		if !end.Before(c.expireAt) {
			expired++
			continue
		}
		k := "N"
		if !c.isNegative && c.attrs != nil {
			k = vfzKindOfMode(c.attrs.Mode)
		}
		attr = append(attr, M{"p": vfPathSeq(p), "k": k})
	}
	n.attrCache.mu.RUnlock()
	sort.Slice(attr, func(i, j int) bool {
		return strings.Join(attr[i]["p"].([]string), "/") < strings.Join(attr[j]["p"].([]string), "/")
	})
	dirc := []M{}
	if n.dirCache != nil {
		n.dirCache.mu.RLock()
		for p, c := range n.dirCache.entries {
			if !end.Before(c.validUntil) {
				expired++
				continue
			}
			names := []string{}
			for _, fi := range c.entries {
				names = append(names, fi.Name())
			}
			sort.Strings(names)
			dirc = append(dirc, M{"p": vfPathSeq(p), "names": names})
		}
		n.dirCache.mu.RUnlock()
	}
	sort.Slice(dirc, func(i, j int) bool {
		return strings.Join(dirc[i]["p"].([]string), "/") < strings.Join(dirc[j]["p"].([]string), "/")
	})
	return M{"tab": tab, "byp": byp, "badnodes": badNodes, "attr": attr, "dirc": dirc, "expired": expired}
}

// ---------------------------------------------------------------- clients

type vfzHandle struct {
	p     []string
	stale bool // the object it was issued for was removed / renamed away by its owner since
}

type vfzClient struct {
	e     *vfzEnv
	id    int
	xid   uint32
	hs    map[uint64]*vfzHandle
	order []uint64
	kinds map[string]string // the client's belief about its own paths ("/"-joined) -> kind
	ops   []M
	names []string
	dirs  []uint64 // shared directory handles
	burst bool     // contend mode without injected delays: all clients do the same requests in step
	r     *vfzRand
}

type vfzRand struct{ s uint64 }

func (r *vfzRand) Intn(n int) int {
	r.s = vfzMix(r.s)
	return int(r.s % uint64(n))
}

func vfzJoin(p []string, n string) []string { return append(append([]string{}, p...), n) }
func vfzKey(p []string) string              { return strings.Join(p, "/") }

func (c *vfzClient) hold(h uint64, p []string) {
	if x, ok := c.hs[h]; ok {
		x.p, x.stale = append([]string{}, p...), false
		return
	}
	c.hs[h] = &vfzHandle{p: append([]string{}, p...)}
	c.order = append(c.order, h)
}

func vfzIsPrefix(a, b []string) bool {
	if len(a) > len(b) {
		return false
	}
	for i := range a {
		if a[i] != b[i] {
			return false
		}
	}
	return true
}

// gone marks the handles at or below p stale and forgets the believed kinds.
func (c *vfzClient) gone(p []string) {
	for _, h := range c.hs {
		if vfzIsPrefix(p, h.p) {
			h.stale = true
		}
	}
	pre := vfzKey(p)
	for k := range c.kinds {
		if k == pre || strings.HasPrefix(k, pre+"/") {
			delete(c.kinds, k)
		}
	}
}

// do performs one request and appends its record: invocation / response sequence numbers, the
// arguments given in meta (only the fields the procedure has) and the decoded results the trace
// spec constrains for this procedure (r... fields).
func (c *vfzClient) do(proc uint32, args []byte, meta M, h uint64) (*vfNFSReply, M) {
	c.xid++
	pn := vfNFSProcNames[proc]
	op := M{"c": c.id, "proc": pn, "hs": false}
	for k, v := range meta {
		op[k] = v
	}
	if x, ok := c.hs[h]; ok && x.stale {
		op["hs"] = true
	}
	op["inv"] = int(c.e.seq.Add(1))
	rep := c.e.call(c.xid, NFS_PROGRAM, NFS_V3, proc, args)
	op["resp"] = int(c.e.seq.Add(1))
	c.e.prog.Add(1)
	op["ok"], op["st"] = rep.OK(), rep.StatusName()
	var v M
	if rep.OK() {
		v = rep.Res.Val
	}
	obj, _ := v["obj"].(M)
	switch pn {
	case "LOOKUP":
		op["rkind"], op["rfid"] = "", ""
		if obj != nil {
			op["rkind"] = vfTypeNames[vfU(obj["type"])]
			op["rfid"] = c.e.fidTok(vfU(obj["fileid"]))
		}
	case "GETATTR":
		op["rkind"], op["rsize"], op["rperm"], op["rfid"] = "", 0, 0, ""
		if obj != nil {
			op["rkind"] = vfTypeNames[vfU(obj["type"])]
			op["rsize"], _ = vfzCap(vfU(obj["size"]))
			op["rperm"] = int(vfU(obj["mode"]) & 0777)
			op["rfid"] = c.e.fidTok(vfU(obj["fileid"]))
		}
	case "READ":
		ints := []int{}
		dlen := 0
		if d, ok := v["data"].([]byte); ok {
			dlen = len(d)
			for i, b := range d {
				if i >= 200 {
					break
				}
				ints = append(ints, int(b))
			}
		}
		ef, _ := v["eof"].(bool)
		op["rcount"], op["rdlen"], op["rdata"], op["reof"] = int(vfU(v["count"])), dlen, ints, ef
	case "WRITE":
		op["rcount"] = int(vfU(v["count"]))
	case "READDIR", "READDIRPLUS":
		ns, ts := []string{}, []string{}
		complete := true
		if ents, ok := v["entries"].([]interface{}); ok {
			for _, en := range ents {
				em := en.(M)
				nm, _ := em["name"].(string)
				ns = append(ns, nm)
				ty := ""
				if a, ok := em["attr"].(M); ok && a != nil {
					ty = vfTypeNames[vfU(a["type"])]
				}
				ts = append(ts, ty)
			}
			if ef, ok := v["eof"].(bool); ok {
				complete = ef
			}
		}
		op["rnames"], op["rcomplete"] = ns, complete
		if pn == "READDIRPLUS" {
			op["rtypes"] = ts
		}
	}
	c.ops = append(c.ops, op)
	return rep, op
}

func (c *vfzClient) path(h uint64) []string {
	if x, ok := c.hs[h]; ok {
		return x.p
	}
	return []string{"?"}
}

func (c *vfzClient) newObj(rep *vfNFSReply, p []string, kind string) {
	if rep.OK() {
		if fh, ok := vfFH(vfGet(rep.Res.Val, "object")); ok {
			c.hold(fh, p)
		}
		if kind != "" {
			c.kinds[vfzKey(p)] = kind
		}
	}
}

func (c *vfzClient) lookup(d uint64, name string) *vfNFSReply {
	p := c.path(d)
	rep, _ := c.do(NFSPROC3_LOOKUP, vfArgsDirOp(d, name), M{"h": p, "name": name}, d)
	if rep.OK() {
		if fh, ok := vfFH(vfGet(rep.Res.Val, "object")); ok {
			c.hold(fh, vfzJoin(p, name))
		}
	}
	return rep
}

func (c *vfzClient) getattr(h uint64) *vfNFSReply {
	rep, _ := c.do(NFSPROC3_GETATTR, vfArgsFH(h), M{"h": c.path(h)}, h)
	return rep
}

func (c *vfzClient) create(d uint64, name string, how uint32, mode *uint32) *vfNFSReply {
	p := c.path(d)
	m := M{"h": p, "name": name, "how": []string{"UNCHECKED", "GUARDED", "EXCLUSIVE"}[how], "hasmode": false, "mode": 0}
	s := vfSattr{Mode: mode}
	if mode != nil {
		m["hasmode"], m["mode"] = true, int(*mode)
	}
	rep, _ := c.do(NFSPROC3_CREATE, vfArgsCreate(d, name, how, s, [8]byte{}), m, d)
	kind := "F"
	if _, had := c.kinds[vfzKey(vfzJoin(p, name))]; had {
		kind = "" // an existing object keeps its kind
	}
	c.newObj(rep, vfzJoin(p, name), kind)
	return rep
}

func (c *vfzClient) mkdir(d uint64, name string) *vfNFSReply {
	p := c.path(d)
	mode := uint32(0755)
	rep, _ := c.do(NFSPROC3_MKDIR, vfArgsMkdir(d, name, vfSattr{Mode: &mode}), M{"h": p, "name": name, "mode": 0755}, d)
	c.newObj(rep, vfzJoin(p, name), "D")
	return rep
}

func (c *vfzClient) symlink(d uint64, name, target string) *vfNFSReply {
	p := c.path(d)
	tc := strings.Split(strings.Trim(target, "/"), "/")
	rep, _ := c.do(NFSPROC3_SYMLINK, vfArgsSymlink(d, name, vfSattr{}, target), M{"h": p, "name": name, "tgt": target, "tgtc": tc}, d)
	c.newObj(rep, vfzJoin(p, name), "L")
	return rep
}

func (c *vfzClient) remove(d uint64, name string) *vfNFSReply {
	p := c.path(d)
	rep, _ := c.do(NFSPROC3_REMOVE, vfArgsDirOp(d, name), M{"h": p, "name": name}, d)
	if rep.OK() {
		c.gone(vfzJoin(p, name))
	}
	return rep
}

func (c *vfzClient) rmdir(d uint64, name string) *vfNFSReply {
	p := c.path(d)
	rep, _ := c.do(NFSPROC3_RMDIR, vfArgsDirOp(d, name), M{"h": p, "name": name}, d)
	if rep.OK() {
		c.gone(vfzJoin(p, name))
	}
	return rep
}

func (c *vfzClient) rename(d1 uint64, n1 string, d2 uint64, n2 string) *vfNFSReply {
	p1, p2 := c.path(d1), c.path(d2)
	m := M{"h": p1, "name": n1, "h2": p2, "name2": n2}
	rep, op := c.do(NFSPROC3_RENAME, vfArgsRename(d1, n1, d2, n2), m, d1)
	if x, ok := c.hs[d2]; ok && x.stale {
		op["hs"] = true
	}
	if rep.OK() {
		src, dst := vfzJoin(p1, n1), vfzJoin(p2, n2)
		k := c.kinds[vfzKey(src)]
		if vfzKey(src) != vfzKey(dst) {
			c.gone(src)
			c.gone(dst)
			if k != "" {
				c.kinds[vfzKey(dst)] = k
			}
		}
	}
	return rep
}

func (c *vfzClient) readdir(d uint64, plus bool) *vfNFSReply {
	p := c.path(d)
	if plus {
		rep, _ := c.do(NFSPROC3_READDIRPLUS, vfArgsReaddirplus(d, 0, [8]byte{}, 65536, 1<<20), M{"h": p}, d)
		return rep
	}
	rep, _ := c.do(NFSPROC3_READDIR, vfArgsReaddir(d, 0, [8]byte{}, 1<<20), M{"h": p}, d)
	return rep
}

func (c *vfzClient) setattr(h uint64, mode *uint32, size *uint64) *vfNFSReply {
	m := M{"h": c.path(h), "hasmode": false, "mode": 0, "hassize": false, "size": 0}
	if mode != nil {
		m["hasmode"], m["mode"] = true, int(*mode)
	}
	if size != nil {
		m["hassize"], m["size"] = true, int(*size)
	}
	rep, _ := c.do(NFSPROC3_SETATTR, vfArgsSetattr(h, vfSattr{Mode: mode, Size: size}, nil), m, h)
	return rep
}

func (c *vfzClient) read(h uint64, off uint64, cnt uint32) *vfNFSReply {
	rep, _ := c.do(NFSPROC3_READ, vfArgsRead(h, off, cnt), M{"h": c.path(h), "off": int(off), "cnt": int(cnt)}, h)
	return rep
}

func (c *vfzClient) write(h uint64, off uint64, data []byte) *vfNFSReply {
	ints := make([]int, len(data))
	for i, b := range data {
		ints[i] = int(b)
	}
	rep, _ := c.do(NFSPROC3_WRITE, vfArgsWrite(h, off, 2, data), M{"h": c.path(h), "off": int(off), "data": ints}, h)
	return rep
}

// handles of the client whose believed kind is k (own objects), fresh ones preferred
func (c *vfzClient) pickKind(k string) (uint64, bool) {
	var cand []uint64
	for _, h := range c.order {
		x := c.hs[h]
		if c.kinds[vfzKey(x.p)] == k && !x.stale {
			cand = append(cand, h)
		}
	}
	if len(cand) == 0 {
		return 0, false
	}
	return cand[c.r.Intn(len(cand))], true
}

func (c *vfzClient) anyOwn() (uint64, bool) {
	var cand []uint64
	for _, h := range c.order {
		shared := false
		for _, d := range c.dirs {
			if d == h {
				shared = true
			}
		}
		if !shared {
			cand = append(cand, h)
		}
	}
	if len(cand) == 0 {
		return 0, false
	}
	return cand[c.r.Intn(len(cand))], true
}

// a directory in which the client may name objects: a shared directory or one of its own
func (c *vfzClient) pickDir() uint64 {
	if c.r.Intn(4) == 0 {
		if h, ok := c.pickKind("D"); ok {
			return h
		}
	}
	return c.dirs[c.r.Intn(len(c.dirs))]
}

func (c *vfzClient) name() string { return c.names[c.r.Intn(len(c.names))] }

// nameIn prefers (3 times out of 4) a name that the client believes to exist / not to exist in d.
func (c *vfzClient) nameIn(d uint64, existing bool) string {
	if c.r.Intn(4) > 0 {
		var cand []string
		for _, n := range c.names {
			_, has := c.kinds[vfzKey(vfzJoin(c.path(d), n))]
			if has == existing {
				cand = append(cand, n)
			}
		}
		if len(cand) > 0 {
			return cand[c.r.Intn(len(cand))]
		}
	}
	return c.name()
}

func (c *vfzClient) dataBytes(n int) []byte {
	b := make([]byte, n)
	for i := range b {
		b[i] = byte(1 + c.r.Intn(250))
	}
	return b
}

// stepStorm: attribute and read traffic on the client's own objects without injected delays: GETATTRs
// and whole-file READs of different files (all of different sizes and contents) by different clients
// at the same moment, with an
// occasional size change in between (replies are checked like every other distinct-names history).
func (c *vfzClient) stepStorm() {
	f, ok := c.pickKind("F")
	if !ok {
		c.getattr(c.dirs[1])
		return
	}
	switch x := c.r.Intn(100); {
	case x < 42:
		c.getattr(f)
	case x < 82:
		// whole-file READs: the files of a storm differ in size and in every byte, so a reply that
		// carries another request's data or attributes matches no state of this file
		c.read(f, 0, 64)
	case x < 86:
		c.getattr(c.dirs[c.r.Intn(2)])
	case x < 93:
		c.setattr(f, nil, u64p(uint64(c.r.Intn(40))))
	default:
		c.write(f, uint64(c.r.Intn(6)), c.dataBytes(1+c.r.Intn(5)))
	}
}

// ---------------------------------------------------------------- re-export rounds

// vfzRoundEntries: objects in the export root of a rounds history
const vfzRoundEntries = 40

// handleDiff projects the handle table at a quiescent moment: sizes of both maps and the (id, path)
// pairs that are in one of them only.
func vfzHandleDiff(n *AbsfsNFS) (ntab, nbyp int, only []M) {
	only = []M{}
	n.fileMap.RLock()
	defer n.fileMap.RUnlock()
	ntab, nbyp = len(n.fileMap.handles), len(n.fileMap.pathHandles)
	for id, f := range n.fileMap.handles {
		nd, ok := f.(*NFSNode)
		if !ok {
			only = append(only, M{"i": int(id), "p": []string{"?"}, "in": "handles"})
		} else if other, has := n.fileMap.pathHandles[nd.path]; !has || other != id {
			only = append(only, M{"i": int(id), "p": vfPathSeq(nd.path), "in": "handles"})
		}
	}
	for p, id := range n.fileMap.pathHandles {
		if f, has := n.fileMap.handles[id]; !has {
			only = append(only, M{"i": int(id), "p": vfPathSeq(p), "in": "pathHandles"})
		} else if nd, ok := f.(*NFSNode); !ok || nd.path != p {
			only = append(only, M{"i": int(id), "p": vfPathSeq(p), "in": "pathHandles"})
		}
	}
	return
}

// rounds: R times, the export is taken down and up again (Unexport: every handle and cache entry
// is dropped, so every path is without a handle again) and all clients at once mount it and list
// the root with READDIRPLUS, which allocates a handle for every entry in a tight loop; a barrier
// at the last backend operation before that loop (the Lstat of the root for the reply's directory
// attributes, minimal TTL) starts the loops together. After each round the handle table is
// projected (vfzHandleDiff); the requests themselves are not recorded.
func (h *vfzHist) rounds(R int) (M, bool, string) {
	ncl := len(h.clients)
	ntab, nbyp, nun := []int{}, []int{}, []int{}
	odd := []M{}
	h.e.on.Store(false)
	bar := &vfzBarrier{when: "post", op: "Lstat", p: "/", n: int32(ncl), wait: time.Duration(vfEnvInt("VF_LIN_BARRIER_US", 500)) * time.Microsecond}
	h.e.bar.Store(bar)
	defer h.e.bar.Store(nil)
	var tUn, tRun, tDiff time.Duration
	defer func() {
		if os.Getenv("VF_LIN_DEBUG") == "1" {
			fmt.Fprintf(os.Stderr, "VF-LIN-ROUNDS unexport=%v run=%v diff=%v arrivals=%d rounds=%d\n", tUn, tRun, tDiff, bar.ctr.Load(), R)
		}
	}()
	for r := 0; r < R; r++ {
		t0 := time.Now()
		h.e.n.Unexport()
		tUn += time.Since(t0)
		t0 = time.Now()
		var wg sync.WaitGroup
		for i := 0; i < ncl; i++ {
			wg.Add(1)
			go func(i int) {
				defer wg.Done()
				xid := uint32(100000*(i+1) + 2*r)
				var a bytes.Buffer
				xdrEncodeString(&a, "/")
				rep := h.e.call(xid, MOUNT_PROGRAM, MOUNT_V3, 1, a.Bytes())
				b := rep.Raw.Body
				if rep.Raw.Err != nil || len(b) < 16 {
					return
				}
				root := uint64(b[8])<<56 | uint64(b[9])<<48 | uint64(b[10])<<40 | uint64(b[11])<<32 | uint64(b[12])<<24 | uint64(b[13])<<16 | uint64(b[14])<<8 | uint64(b[15])
				h.e.call(xid+1, NFS_PROGRAM, NFS_V3, NFSPROC3_READDIRPLUS, vfArgsReaddirplus(root, 0, [8]byte{}, 65536, 1<<20))
				h.e.prog.Add(1)
			}(i)
		}
		done := make(chan struct{})
		go func() { wg.Wait(); close(done) }()
		select {
		case <-done:
		case <-time.After(10 * time.Second):
			buf := make([]byte, 1<<20)
			return nil, false, string(buf[:runtime.Stack(buf, true)])
		}
		tRun += time.Since(t0)
		t0 = time.Now()
		a, b, only := vfzHandleDiff(h.e.n)
		tDiff += time.Since(t0)
		ntab, nbyp, nun = append(ntab, a), append(nbyp, b), append(nun, len(only))
		if len(only) > 0 && len(odd) < 5 {
			odd = append(odd, M{"round": r, "only": only})
		}
	}
	return M{"n": R, "ntab": ntab, "nbyp": nbyp, "nun": nun, "odd": odd}, true, ""
}

// stepContend: all clients hammer the same few objects through the same handles (races on node
// attributes, the handle table and the caches are the point; no reply is checked).
func (c *vfzClient) stepContend(k int) {
	root, dh := c.dirs[0], c.dirs[1]
	if k == 0 {
		// burst: every client starts by listing /d, whose entries have no handles yet
		c.readdir(dh, true)
		return
	}
	if c.burst && k <= 12 {
		// ... and then looks the same fresh names up, all clients in step, without injected delays
		c.lookup(root, fmt.Sprintf("q%d", k-1))
		return
	}
	d := c.dirs[c.r.Intn(2)]
	f, hasF := c.pickKind("F")
	switch x := c.r.Intn(100); {
	case x < 22:
		if hasF {
			c.write(f, uint64(c.r.Intn(6)), c.dataBytes(1+c.r.Intn(5)))
		} else {
			c.create(d, c.name(), 0, nil)
		}
	case x < 32:
		h := []uint64{root, dh, f}[c.r.Intn(3)]
		if h == 0 {
			h = dh
		}
		if h == f && c.r.Intn(2) == 0 {
			c.setattr(h, nil, u64p(uint64(c.r.Intn(9))))
		} else {
			c.setattr(h, u32p([]uint32{0755, 0750, 0711}[c.r.Intn(3)]), nil)
		}
	case x < 47:
		c.lookup(d, []string{"a", "b", "p0", "p1", "p2"}[c.r.Intn(5)])
	case x < 57:
		c.readdir(d, true)
	case x < 65:
		if h, ok := c.anyOwn(); ok && c.r.Intn(2) == 0 {
			c.getattr(h)
		} else {
			c.getattr(d)
		}
	case x < 73:
		if hasF {
			c.read(f, uint64(c.r.Intn(6)), uint32(c.r.Intn(12)))
		} else {
			c.lookup(d, c.name())
		}
	case x < 80:
		c.create(d, c.name(), uint32(c.r.Intn(2)), nil)
	case x < 86:
		c.remove(d, []string{"a", "b", "p3", "p4"}[c.r.Intn(4)])
	case x < 91:
		c.mkdir(d, c.name())
	case x < 96:
		c.rename(d, c.name(), c.dirs[c.r.Intn(2)], c.name())
	default:
		c.rmdir(d, c.name())
	}
}

// step performs one random request of the client.
func (c *vfzClient) step() {
	d := c.pickDir()
	switch x := c.r.Intn(100); {
	case x < 12:
		var mode *uint32
		if c.r.Intn(2) == 0 {
			mode = u32p([]uint32{0644, 0600, 0640}[c.r.Intn(3)])
		}
		c.create(d, c.nameIn(d, c.r.Intn(3) == 0), uint32(c.r.Intn(2)), mode)
	case x < 20:
		c.mkdir(d, c.nameIn(d, false))
	case x < 25:
		c.symlink(d, c.nameIn(d, false), c.name())
	case x < 37:
		c.remove(d, c.nameIn(d, true))
	case x < 43:
		c.rmdir(d, c.nameIn(d, true))
	case x < 55:
		d2 := c.pickDir()
		c.rename(d, c.nameIn(d, true), d2, c.nameIn(d2, c.r.Intn(4) == 0))
	case x < 63:
		if f, ok := c.pickKind("F"); ok {
			c.write(f, uint64(c.r.Intn(6)), c.dataBytes(1+c.r.Intn(5)))
		} else {
			c.create(d, c.name(), 0, nil)
		}
	case x < 70:
		if f, ok := c.pickKind("F"); ok {
			c.read(f, uint64(c.r.Intn(6)), uint32(c.r.Intn(12)))
		} else if h, ok := c.anyOwn(); ok {
			c.read(h, 0, 8)
		} else {
			c.lookup(d, c.name())
		}
	case x < 76:
		if h, ok := c.anyOwn(); ok {
			var mode *uint32
			var size *uint64
			if c.r.Intn(3) > 0 {
				mode = u32p([]uint32{0644, 0600, 0755, 0700}[c.r.Intn(4)])
			}
			if mode == nil || c.r.Intn(3) == 0 {
				size = u64p(uint64(c.r.Intn(9)))
			}
			c.setattr(h, mode, size)
		} else {
			c.lookup(d, c.name())
		}
	case x < 84:
		c.lookup(d, c.nameIn(d, c.r.Intn(3) > 0))
	case x < 90:
		if h, ok := c.anyOwn(); ok && c.r.Intn(2) == 0 {
			c.getattr(h)
		} else {
			c.getattr(d)
		}
	default:
		c.readdir(d, c.r.Intn(3) == 0)
	}
}

// ---------------------------------------------------------------- histories

type vfzHist struct {
	nojitter bool
	e        *vfzEnv
	cfg      vfzCfg
	clients  []*vfzClient
	init     []M
}

// vfzSetup builds the initial tree sequentially through the handlers: shared directories / and
// /d, and a few objects per client under names only that client uses.
func vfzSetup(t testing.TB, cfg vfzCfg, salt uint64, nclients int, r *vfzRand) *vfzHist {
	e := vfzNewEnv(t, cfg, salt)
	root := e.mount(t)
	boot := &vfzClient{e: e, id: -1, hs: map[uint64]*vfzHandle{}, kinds: map[string]string{}, r: r, xid: 10}
	boot.hold(root, []string{})
	if rep := boot.mkdir(root, "d"); !rep.OK() {
		t.Fatalf("setup: MKDIR d: %s", rep.StatusName())
	}
	var dh uint64
	for h, x := range boot.hs {
		if vfzKey(x.p) == "d" {
			dh = h
		}
	}
	h := &vfzHist{e: e, cfg: cfg}
	for i := 0; i < nclients; i++ {
		c := &vfzClient{e: e, id: i, xid: uint32(1000 * (i + 1)), hs: map[uint64]*vfzHandle{}, kinds: map[string]string{}, dirs: []uint64{root, dh},
			r: &vfzRand{s: vfzMix(salt ^ uint64(i+1)*7919)}}
		if cfg.Mode == "contend" {
			c.names = []string{"a", "b"}
		} else {
			c.names = []string{fmt.Sprintf("a%d", i), fmt.Sprintf("b%d", i), fmt.Sprintf("c%d", i)}
		}
		c.hold(root, []string{})
		c.hold(dh, []string{"d"})
		h.clients = append(h.clients, c)
	}
	// initial objects (created by the boot client; the owner learns the handle by LOOKUP)
	for i, c := range h.clients {
		if cfg.Mode == "contend" && i > 0 {
			// every client holds the same handles
			for _, hh := range h.clients[0].order {
				c.hold(hh, h.clients[0].hs[hh].p)
			}
			for k, v := range h.clients[0].kinds {
				c.kinds[k] = v
			}
			continue
		}
		for _, nm := range c.names {
			dir := []uint64{root, dh}[r.Intn(2)]
			switch r.Intn(6) {
			case 0, 1:
				if boot.create(dir, nm, 0, u32p(0644)).OK() {
					p := vfzJoin(boot.path(dir), nm)
					for fh, x := range boot.hs {
						if vfzKey(x.p) == vfzKey(p) {
							if r.Intn(2) == 0 {
								boot.write(fh, 0, c.dataBytes(1+r.Intn(6)))
							}
							c.hold(fh, p)
							c.kinds[vfzKey(p)] = "F"
						}
					}
				}
			case 2:
				if boot.mkdir(dir, nm).OK() {
					p := vfzJoin(boot.path(dir), nm)
					for fh, x := range boot.hs {
						if vfzKey(x.p) == vfzKey(p) {
							c.hold(fh, p)
							c.kinds[vfzKey(p)] = "D"
							if r.Intn(2) == 0 {
								boot.create(fh, c.names[0], 0, u32p(0644))
							}
						}
					}
				}
			case 3:
				if boot.symlink(dir, nm, c.names[r.Intn(len(c.names))]).OK() {
					p := vfzJoin(boot.path(dir), nm)
					for fh, x := range boot.hs {
						if vfzKey(x.p) == vfzKey(p) {
							c.hold(fh, p)
							c.kinds[vfzKey(p)] = "L"
						}
					}
				}
			}
		}
	}
	if cfg.Mode == "contend" {
		// objects nobody has looked up yet (no handles, no cache entries), and a shared file
		for i := 0; i < 5; i++ {
			e.vfs.vfPoke(fmt.Sprintf("/d/p%d", i), "F", []byte{1, 2, 3}, "", 0644)
		}
		for i := 0; i < 12; i++ {
			e.vfs.vfPoke(fmt.Sprintf("/q%d", i), "F", nil, "", 0644)
		}
		if _, has := h.clients[0].pickKind("F"); !has && boot.create(dh, "a", 0, u32p(0644)).OK() {
			for fh, x := range boot.hs {
				if vfzKey(x.p) == "d/a" {
					for _, c := range h.clients {
						c.hold(fh, x.p)
						c.kinds["d/a"] = "F"
					}
				}
			}
		}
	}
	// a few reads fill the caches before the concurrent phase
	for i := 0; i < 3 && cfg.Mode != "contend"; i++ {
		switch r.Intn(3) {
		case 0:
			boot.readdir([]uint64{root, dh}[r.Intn(2)], r.Intn(2) == 0)
		case 1:
			c := h.clients[r.Intn(len(h.clients))]
			boot.lookup([]uint64{root, dh}[r.Intn(2)], c.names[r.Intn(len(c.names))])
		}
	}
	h.init = vfzTree(e.vfs)
	return h
}

// run executes the concurrent phase; returns false when the watchdog fired (no request
// completed for 10 s).
func (h *vfzHist) run(nops []int, stepFn func(c *vfzClient)) (bool, string) {
	var wg sync.WaitGroup
	start := make(chan struct{})
	h.e.on.Store(!h.nojitter)
	for i, c := range h.clients {
		wg.Add(1)
		go func(c *vfzClient, n int) {
			defer wg.Done()
			<-start
			for k := 0; k < n; k++ {
				stepFn(c)
			}
		}(c, nops[i])
	}
	done := make(chan struct{})
	go func() { wg.Wait(); close(done) }()
	close(start)
	last, lastT := h.e.prog.Load(), time.Now()
	tick := time.NewTicker(200 * time.Millisecond)
	defer tick.Stop()
	for {
		select {
		case <-done:
			h.e.on.Store(false)
			return true, ""
		case <-tick.C:
			if p := h.e.prog.Load(); p != last {
				last, lastT = p, time.Now()
			} else if time.Since(lastT) > 10*time.Second {
				buf := make([]byte, 1<<20)
				buf = buf[:runtime.Stack(buf, true)]
				return false, string(buf)
			}
		}
	}
}

// record assembles the history line.
func (h *vfzHist) record(hist int, seed int64, extra M) M {
	end := time.Now()
	ops := []M{}
	for _, c := range h.clients {
		ops = append(ops, c.ops...)
	}
	sort.Slice(ops, func(i, j int) bool { return ops[i]["inv"].(int) < ops[j]["inv"].(int) })
	for i, o := range ops {
		o["id"] = i + 1
	}
	eff := h.e.n.GetExportOptions()
	line := M{"ev": "hist", "hist": hist, "scenario": "", "seed": int(seed % (1 << 30)), "cfg": h.cfg, "T": eff.TransferSize, "nclients": len(h.clients),
		"init": h.init, "ops": ops, "final": vfzTree(h.e.vfs), "events": []M{},
		"rounds": M{"n": 0, "ntab": []int{}, "nbyp": []int{}, "nun": []int{}, "odd": []M{}}}
	for k, v := range vfzFinal(h.e.n, end) {
		line[k] = v
	}
	for k, v := range extra {
		line[k] = v
	}
	return line
}

func vfzConfigs() []vfzCfg {
	return []vfzCfg{
		{TTL: "min", Neg: false, Dir: false}, {TTL: "min", Neg: true, Dir: true},
		{TTL: "def", Neg: true, Dir: true}, {TTL: "min", Neg: true, Dir: false},
		{TTL: "def", Neg: false, Dir: true}, {TTL: "min", Neg: false, Dir: true},
		{TTL: "def", Neg: true, Dir: false}, {TTL: "def", Neg: false, Dir: false},
	}
}

// ---------------------------------------------------------------- directed schedules

// vfzDirected runs one deterministic schedule: client 1 (the reader) issues `blocked`, which is
// held at the gate (when, op, path); client 0 (the owner of all names) then performs `during`
// to completion; the reader is released; finally client 0 performs `after`.
func vfzDirected(t testing.TB, name string, cfg vfzCfg, setup func(boot *vfzClient, d uint64),
	when, op, gpath string, blocked func(c *vfzClient, d uint64), during, after func(c *vfzClient, d uint64)) (*vfzHist, bool) {
	cfg.Mode = "directed"
	r := &vfzRand{s: 7}
	e := vfzNewEnv(t, cfg, 7)
	root := e.mount(t)
	boot := &vfzClient{e: e, id: -1, hs: map[uint64]*vfzHandle{}, kinds: map[string]string{}, r: r, xid: 10}
	boot.hold(root, []string{})
	if rep := boot.mkdir(root, "d"); !rep.OK() {
		t.Fatalf("directed %s: MKDIR d: %s", name, rep.StatusName())
	}
	var dh uint64
	for h, x := range boot.hs {
		if vfzKey(x.p) == "d" {
			dh = h
		}
	}
	setup(boot, dh)
	h := &vfzHist{e: e, cfg: cfg}
	for i := 0; i < 2; i++ {
		c := &vfzClient{e: e, id: i, xid: uint32(1000 * (i + 1)), hs: map[uint64]*vfzHandle{}, kinds: map[string]string{}, dirs: []uint64{root, dh},
			r: &vfzRand{s: uint64(i + 1)}, names: []string{"x", "y", "z"}}
		for _, hh := range boot.order {
			c.hold(hh, boot.hs[hh].p)
		}
		h.clients = append(h.clients, c)
	}
	h.init = vfzTree(e.vfs)
	if when == "" { // a sequential scenario: no gate, only the owner acts
		during(h.clients[0], dh)
		return h, true
	}
	st := e.arm(when, op, gpath)
	done := make(chan struct{})
	go func() { defer close(done); blocked(h.clients[1], dh) }()
	select {
	case <-st.reached:
	case <-done:
		return h, false // the gate was never reached: the schedule could not be driven
	case <-time.After(10 * time.Second):
		return h, false
	}
	during(h.clients[0], dh)
	close(st.release)
	select {
	case <-done:
	case <-time.After(10 * time.Second):
		return h, false
	}
	if after != nil {
		after(h.clients[0], dh)
	}
	return h, true
}

// ---------------------------------------------------------------- nested schedules

// A nested schedule puts another client's mutation of the SAME object inside one request's backend
// window: the holder (a request on the file d/x or its handle) is held at its k-th backend-operation
// boundary, the intruder renames d/x away or removes it, the holder is released and completes, the
// intruder optionally puts the name back, and then both clients use the old handle and the directory
// again. Every boundary of every holder is tried (the boundaries are listed by a probe run of the
// holder alone). Same names, so no reply is compared (mode "contend"): what is judged is that every
// request completes (watchdog: 10 s), that nothing races or panics, and the final-state clause.
type vfzNestedOp struct {
	name string
	mut  bool
	run  func(c *vfzClient, dh, hx uint64)
}

func vfzHolders() []vfzNestedOp {
	return []vfzNestedOp{
		{"WRITE", true, func(c *vfzClient, dh, hx uint64) { c.write(hx, 1, []byte{7, 8, 9}) }},
		{"SETATTR-size", true, func(c *vfzClient, dh, hx uint64) { c.setattr(hx, nil, u64p(1)) }},
		{"SETATTR-mode", true, func(c *vfzClient, dh, hx uint64) { c.setattr(hx, u32p(0600), nil) }},
		{"CREATE", true, func(c *vfzClient, dh, hx uint64) { c.create(dh, "x", 0, u32p(0640)) }},
		{"READ", false, func(c *vfzClient, dh, hx uint64) { c.read(hx, 0, 8) }},
		{"GETATTR", false, func(c *vfzClient, dh, hx uint64) { c.getattr(hx) }},
		{"LOOKUP", false, func(c *vfzClient, dh, hx uint64) { c.lookup(dh, "x") }},
		{"READDIRPLUS", false, func(c *vfzClient, dh, hx uint64) { c.readdir(dh, true) }},
	}
}

// intruders: what the other client does while the holder is held, and after it completed
var vfzIntruders = []struct {
	name          string
	during, after func(c *vfzClient, dh uint64)
}{
	{"rename-away-and-back", func(c *vfzClient, dh uint64) { c.rename(dh, "x", dh, "y") }, func(c *vfzClient, dh uint64) { c.rename(dh, "y", dh, "x") }},
	{"remove-and-recreate", func(c *vfzClient, dh uint64) { c.remove(dh, "x") }, func(c *vfzClient, dh uint64) { c.create(dh, "x", 1, u32p(0644)) }},
	{"remove", func(c *vfzClient, dh uint64) { c.remove(dh, "x") }, func(c *vfzClient, dh uint64) {}},
}

// vfzNestedEnv: / and /d, the file d/x (3 bytes) with its handle known to both clients.
func vfzNestedEnv(t testing.TB) (*vfzHist, uint64, uint64) {
	cfg := vfzCfg{TTL: "min", Mode: "contend"}
	e := vfzNewEnv(t, cfg, 11)
	root := e.mount(t)
	boot := &vfzClient{e: e, id: -1, hs: map[uint64]*vfzHandle{}, kinds: map[string]string{}, r: &vfzRand{s: 11}, xid: 10}
	boot.hold(root, []string{})
	boot.mkdir(root, "d")
	var dh, hx uint64
	for h, x := range boot.hs {
		if vfzKey(x.p) == "d" {
			dh = h
		}
	}
	boot.create(dh, "x", 0, u32p(0644))
	for h, x := range boot.hs {
		if vfzKey(x.p) == "d/x" {
			hx = h
		}
	}
	if dh == 0 || hx == 0 {
		t.Fatalf("nested: setup failed")
	}
	boot.write(hx, 0, []byte{1, 2, 3})
	h := &vfzHist{e: e, cfg: cfg}
	for i := 0; i < 2; i++ {
		c := &vfzClient{e: e, id: i, xid: uint32(1000 * (i + 1)), hs: map[uint64]*vfzHandle{}, kinds: map[string]string{}, dirs: []uint64{root, dh},
			r: &vfzRand{s: uint64(i + 1)}, names: []string{"x", "y"}}
		for _, hh := range boot.order {
			c.hold(hh, boot.hs[hh].p)
		}
		h.clients = append(h.clients, c)
	}
	h.init = []M{}
	return h, dh, hx
}

// vfzBrief: a nested / paired schedule runs at minimal TTL and is judged on completion and final state
// only; its requests are kept as one readable string each (the trace spec does not look at them).
func vfzBrief(line M) M {
	brief := []string{}
	for _, o := range line["ops"].([]M) {
		nm, _ := o["name"].(string)
		brief = append(brief, fmt.Sprintf("c%v [%v,%v] %v /%s %s = %v", o["c"], o["inv"], o["resp"], o["proc"], strings.Join(o["h"].([]string), "/"), nm, o["st"]))
	}
	line["ops"], line["brief"] = []M{}, brief
	return line
}

// vfzWithin runs f and reports whether it returned within 10 s (else: the goroutine dump).
func vfzWithin(f func()) (bool, string) {
	done := make(chan struct{})
	go func() { defer close(done); f() }()
	select {
	case <-done:
		return true, ""
	case <-time.After(10 * time.Second):
		buf := make([]byte, 1<<20)
		return false, string(buf[:runtime.Stack(buf, true)])
	}
}

// vfzNested runs the nested schedules; returns how many were run and whether a request hung.
func vfzNested(t testing.TB, tr *vfTrace, seed int64, base int) (int, bool) {
	all := vfThorough() || vfEnvInt("VF_LIN_NESTED", 1) == 2
	n := 0
	for _, hd := range vfzHolders() {
		// probe: the boundaries the holder passes when it runs alone
		ph, pdh, phx := vfzNestedEnv(t)
		rec := &vfzRecorder{}
		ph.e.rec.Store(rec)
		hd.run(ph.clients[1], pdh, phx)
		ph.e.rec.Store(nil)
		ph.e.n.Close()
		for k := range rec.list {
			for iv, in := range vfzIntruders {
				if !all && !hd.mut && (int(seed)+k)%len(vfzIntruders) != iv {
					continue // quick tier: read-type holders get one intruder per boundary
				}
				hist := base - n
				n++
				fmt.Fprintf(os.Stderr, "VF-LIN-HIST %d\n", hist)
				name := fmt.Sprintf("nested: %s held at boundary %d (%s), %s", hd.name, k, rec.list[k], in.name)
				h, dh, hx := vfzNestedEnv(t)
				st := &vfzStop{any: true, reached: make(chan struct{}), release: make(chan struct{})}
				st.skip.Store(int32(k))
				h.e.stop.Store(st)
				held := make(chan struct{})
				go func() { defer close(held); hd.run(h.clients[1], dh, hx) }()
				hung, dump := false, ""
				select {
				case <-st.reached:
					in.during(h.clients[0], dh)
					close(st.release)
				case <-held: // the holder took another path this time: nothing was held
				case <-time.After(10 * time.Second):
					hung = true
				}
				if !hung {
					ok, d := vfzWithin(func() { <-held })
					hung, dump = !ok, d
				}
				if !hung {
					steps := []func(){
						func() { in.after(h.clients[0], dh) },
						func() { h.clients[0].getattr(hx) },
						func() { h.clients[1].setattr(hx, u32p(0644), nil) },
						func() { h.clients[0].write(hx, 0, []byte{5}) },
						func() { h.clients[1].read(hx, 0, 4) },
						func() { h.clients[0].lookup(dh, "x") },
						func() { h.clients[1].readdir(dh, true) },
						func() { h.clients[0].getattr(dh) },
					}
					for _, f := range steps {
						if ok, d := vfzWithin(f); !ok {
							hung, dump = true, d
							break
						}
					}
				}
				if hung {
					if dump == "" {
						buf := make([]byte, 1<<20)
						dump = string(buf[:runtime.Stack(buf, true)])
					}
					fmt.Fprintf(os.Stderr, "VF-LIN-DEADLOCK-BEGIN %d\n%s\nVF-LIN-DEADLOCK-END\n", hist, dump)
					// (a request is stuck: only what the other goroutines own is safe to read)
					tr.Emit(M{"ev": "hist", "hist": hist, "scenario": name, "seed": int(seed % (1 << 30)), "cfg": h.cfg, "T": 0, "nclients": 2, "init": []M{}, "ops": []M{},
						"final": []M{}, "tab": []M{}, "byp": []M{}, "badnodes": 0, "attr": []M{}, "dirc": []M{}, "expired": 0,
						"rounds": M{"n": 0, "ntab": []int{}, "nbyp": []int{}, "nun": []int{}, "odd": []M{}},
						"events": []M{{"ev": "deadlock", "what": "a request did not complete within 10 s (" + name + ")", "detail": ""}}})
					vfzFlush(tr)
					return n, true
				}
				tr.Emit(vfzBrief(h.record(hist, seed, M{"scenario": name})))
				vfzFlush(tr)
				h.e.n.Close()
			}
		}
	}
	return n, false
}

// ---------------------------------------------------------------- paired schedules

// A paired schedule steps TWO requests of two clients through their backend-operation boundaries
// under the harness's control: request A is advanced to its boundary i, request B to its boundary j,
// then both are advanced alternately one boundary at a time until they return. A request that sits
// inside a critical section when it reaches a boundary keeps its lock while the other one runs -
// the interleavings in which lock-order inversions and lost wake-ups show. Every (i, j) is tried.
// The handler goroutine of a request is recognised by its goroutine id (requests are started one
// after the other, each parked at its first boundary before the next starts). Same objects, so no
// reply is compared (mode "contend"): completion within 10 s, races, panics, final-state clause.
type vfzSlot struct {
	at     chan string   // the request arrived at a boundary
	step   chan struct{} // permission to pass it
	done   chan struct{} // the request returned
	free   atomic.Bool   // pass every boundary
	parked bool          // (driver) waits at a boundary
	over   bool          // (driver) returned
	count  int           // (driver) boundaries reached
}

type vfzSched struct {
	mu       sync.Mutex
	byG      map[uint64]*vfzSlot
	starting *vfzSlot
}

func vfzGID() uint64 {
	var b [64]byte
	n := runtime.Stack(b[:], false)
	var id uint64
	fmt.Sscanf(string(b[:n]), "goroutine %d ", &id)
	return id
}

func (sc *vfzSched) pass(desc string) {
	gid := vfzGID()
	sc.mu.Lock()
	sl := sc.byG[gid]
	if sl == nil && sc.starting != nil {
		sl, sc.starting = sc.starting, nil
		sc.byG[gid] = sl
	}
	sc.mu.Unlock()
	if sl == nil || sl.free.Load() {
		return
	}
	sl.at <- desc
	<-sl.step
}

// wait: the slot's next event (arrival at a boundary / return), or false after d.
func (sl *vfzSlot) wait(d time.Duration) bool {
	select {
	case <-sl.at:
		sl.parked = true
		sl.count++
		return true
	case <-sl.done:
		sl.over = true
		return true
	case <-time.After(d):
		return false
	}
}

func (sl *vfzSlot) advance(d time.Duration) bool {
	if sl.over {
		return false
	}
	if sl.parked {
		sl.parked = false
		sl.step <- struct{}{}
	}
	return sl.wait(d)
}

type vfzPair struct {
	name string
	a, b func(c *vfzClient, p *vfzPairEnv)
}

type vfzPairEnv struct {
	h            *vfzHist
	root, d1, d2 uint64
	ha, hb       uint64 // handles of d1/a and d2/b
}

func vfzPairs(all bool) []vfzPair {
	ps := []vfzPair{
		{"RENAME d1/a -> d2/a2 | RENAME d2/b -> d1/b2",
			func(c *vfzClient, p *vfzPairEnv) { c.rename(p.d1, "a", p.d2, "a2") },
			func(c *vfzClient, p *vfzPairEnv) { c.rename(p.d2, "b", p.d1, "b2") }},
	}
	if all {
		ps = append(ps,
			vfzPair{"RENAME d1/a -> d2/a2 | CREATE d2/c",
				func(c *vfzClient, p *vfzPairEnv) { c.rename(p.d1, "a", p.d2, "a2") },
				func(c *vfzClient, p *vfzPairEnv) { c.create(p.d2, "c", 1, u32p(0644)) }},
			vfzPair{"WRITE d1/a | SETATTR(size) d1/a",
				func(c *vfzClient, p *vfzPairEnv) { c.write(p.ha, 1, []byte{7, 8, 9}) },
				func(c *vfzClient, p *vfzPairEnv) { c.setattr(p.ha, nil, u64p(1)) }},
			vfzPair{"RENAME d1/a -> d1/a2 | READDIRPLUS d1",
				func(c *vfzClient, p *vfzPairEnv) { c.rename(p.d1, "a", p.d1, "a2") },
				func(c *vfzClient, p *vfzPairEnv) { c.readdir(p.d1, true) }},
			vfzPair{"REMOVE d1/a | WRITE d1/a",
				func(c *vfzClient, p *vfzPairEnv) { c.remove(p.d1, "a") },
				func(c *vfzClient, p *vfzPairEnv) { c.write(p.ha, 0, []byte{5, 6}) }})
	}
	return ps
}

func vfzNewPairEnv(t testing.TB) *vfzPairEnv {
	cfg := vfzCfg{TTL: "min", Mode: "contend"}
	e := vfzNewEnv(t, cfg, 13)
	root := e.mount(t)
	boot := &vfzClient{e: e, id: -1, hs: map[uint64]*vfzHandle{}, kinds: map[string]string{}, r: &vfzRand{s: 13}, xid: 10}
	boot.hold(root, []string{})
	boot.mkdir(root, "d1")
	boot.mkdir(root, "d2")
	find := func(key string) uint64 {
		for h, x := range boot.hs {
			if vfzKey(x.p) == key {
				return h
			}
		}
		return 0
	}
	p := &vfzPairEnv{root: root, d1: find("d1"), d2: find("d2")}
	boot.create(p.d1, "a", 0, u32p(0644))
	boot.create(p.d2, "b", 0, u32p(0644))
	p.ha, p.hb = find("d1/a"), find("d2/b")
	if p.d1 == 0 || p.d2 == 0 || p.ha == 0 || p.hb == 0 {
		t.Fatalf("paired: setup failed")
	}
	boot.write(p.ha, 0, []byte{1, 2, 3})
	p.h = &vfzHist{e: e, cfg: cfg, init: []M{}}
	for i := 0; i < 2; i++ {
		c := &vfzClient{e: e, id: i, xid: uint32(1000 * (i + 1)), hs: map[uint64]*vfzHandle{}, kinds: map[string]string{}, dirs: []uint64{root, p.d1},
			r: &vfzRand{s: uint64(i + 1)}, names: []string{"a", "b"}}
		for _, hh := range boot.order {
			c.hold(hh, boot.hs[hh].p)
		}
		p.h.clients = append(p.h.clients, c)
	}
	return p
}

// vfzPaired runs the paired schedules; returns how many were run and whether a request hung.
func vfzPaired(t testing.TB, tr *vfTrace, seed int64, base int) (int, bool) {
	const short = 300 * time.Millisecond // a request that does not reach its next boundary: blocked on a lock
	n := 0
	count := func(f func(c *vfzClient, p *vfzPairEnv)) int {
		p := vfzNewPairEnv(t)
		rec := &vfzRecorder{}
		p.h.e.rec.Store(rec)
		f(p.h.clients[0], p)
		p.h.e.rec.Store(nil)
		p.h.e.n.Close()
		return len(rec.list)
	}
	for _, pr := range vfzPairs(vfThorough() || vfEnvInt("VF_LIN_PAIRED", 1) == 2) {
		na, nb := count(pr.a), count(pr.b)
		for i := 0; i < na; i++ {
			for j := 0; j < nb; j++ {
				hist := base - n
				n++
				fmt.Fprintf(os.Stderr, "VF-LIN-HIST %d\n", hist)
				name := fmt.Sprintf("paired: %s, first advanced to its boundary %d, second to its boundary %d, then in step", pr.name, i, j)
				p := vfzNewPairEnv(t)
				sc := &vfzSched{byG: map[uint64]*vfzSlot{}}
				p.h.e.sched.Store(sc)
				slots := [2]*vfzSlot{}
				fns := [2]func(c *vfzClient, p *vfzPairEnv){pr.a, pr.b}
				upto := [2]int{i, j}
				for x := 0; x < 2; x++ {
					sl := &vfzSlot{at: make(chan string, 1), step: make(chan struct{}), done: make(chan struct{})}
					slots[x] = sl
					sc.mu.Lock()
					sc.starting = sl
					sc.mu.Unlock()
					go func(x int) { defer close(sl.done); fns[x](p.h.clients[x], p) }(x)
					sl.wait(short) // parks at its first boundary (or returns, or blocks)
					for sl.count <= upto[x] && sl.advance(short) {
					}
				}
				// in step, until both returned; nothing moving for 10 s = hung
				idle := time.Duration(0)
				for !(slots[0].over && slots[1].over) && idle < 10*time.Second {
					moved := false
					for _, sl := range slots {
						if !sl.over && sl.advance(short) {
							moved = true
						}
					}
					if moved {
						idle = 0
					} else {
						idle += 2 * short
					}
				}
				hung := !(slots[0].over && slots[1].over)
				dump := ""
				if hung {
					buf := make([]byte, 1<<20)
					dump = string(buf[:runtime.Stack(buf, true)])
				}
				p.h.e.sched.Store(nil)
				for _, sl := range slots {
					sl.free.Store(true)
				}
				if !hung {
					steps := []func(){
						func() { p.h.clients[0].getattr(p.d1) },
						func() { p.h.clients[1].getattr(p.d2) },
						func() { p.h.clients[0].readdir(p.d1, true) },
						func() { p.h.clients[1].readdir(p.d2, true) },
						func() { p.h.clients[0].lookup(p.d1, "b2") },
						func() { p.h.clients[1].getattr(p.ha) },
						func() { p.h.clients[0].rename(p.d2, "a2", p.d1, "a") },
					}
					for _, f := range steps {
						if ok, d := vfzWithin(f); !ok {
							hung, dump = true, d
							break
						}
					}
				}
				if hung {
					fmt.Fprintf(os.Stderr, "VF-LIN-DEADLOCK-BEGIN %d\n%s\nVF-LIN-DEADLOCK-END\n", hist, dump)
					tr.Emit(M{"ev": "hist", "hist": hist, "scenario": name, "seed": int(seed % (1 << 30)), "cfg": p.h.cfg, "T": 0, "nclients": 2, "init": []M{}, "ops": []M{},
						"final": []M{}, "tab": []M{}, "byp": []M{}, "badnodes": 0, "attr": []M{}, "dirc": []M{}, "expired": 0,
						"rounds": M{"n": 0, "ntab": []int{}, "nbyp": []int{}, "nun": []int{}, "odd": []M{}},
						"events": []M{{"ev": "deadlock", "what": "a request did not complete within 10 s (" + name + ")", "detail": ""}}})
					vfzFlush(tr)
					return n, true
				}
				tr.Emit(vfzBrief(p.h.record(hist, seed, M{"scenario": name})))
				vfzFlush(tr)
				p.h.e.n.Close()
			}
		}
	}
	return n, false
}

type vfzScenario struct {
	name string
	cfg  vfzCfg
	run  func(t testing.TB) (*vfzHist, bool)
}

func vfzScenarios() []vfzScenario {
	// every scenario: the gate position, the reader's request held there, the owner's requests
	// executed meanwhile, the owner's requests afterwards
	mkfile := func(names ...string) func(boot *vfzClient, d uint64) {
		return func(boot *vfzClient, d uint64) {
			for _, n := range names {
				boot.create(d, n, 0, u32p(0644))
			}
		}
	}
	var out []vfzScenario
	add := func(name string, cfg vfzCfg, setup func(*vfzClient, uint64), when, op, gp string, blocked func(*vfzClient, uint64), during, after func(*vfzClient, uint64)) {
		out = append(out, vfzScenario{name: name, cfg: cfg, run: func(t testing.TB) (*vfzHist, bool) {
			return vfzDirected(t, name, cfg, setup, when, op, gp, blocked, during, after)
		}})
	}
	// a listing read before a CREATE is stored in the directory cache after the CREATE invalidated it
	add("dircache-put-after-invalidate", vfzCfg{TTL: "def", Dir: true}, mkfile("x"), "post", "Readdir", "/d",
		func(c *vfzClient, d uint64) { c.readdir(d, false) },
		func(c *vfzClient, d uint64) { c.create(d, "z", 1, u32p(0644)) },
		func(c *vfzClient, d uint64) { c.readdir(d, false) })
	// attributes read before a REMOVE are stored in the attribute cache after the REMOVE invalidated them
	add("attrcache-put-after-invalidate", vfzCfg{TTL: "def"},
		func(boot *vfzClient, d uint64) { boot.e.vfs.vfPoke("/d/x", "F", nil, "", 0644) }, // (not through the handlers: no cache entry yet)
		"post", "Lstat", "/d/x",
		func(c *vfzClient, d uint64) { c.lookup(d, "x") },
		func(c *vfzClient, d uint64) { c.remove(d, "x") },
		func(c *vfzClient, d uint64) { c.lookup(d, "x") })
	// a failed lookup is stored as a negative entry after the CREATE of that name invalidated negative entries
	add("negcache-put-after-invalidate", vfzCfg{TTL: "def", Neg: true}, mkfile("x"), "post", "Lstat", "/d/y",
		func(c *vfzClient, d uint64) { c.lookup(d, "y") },
		func(c *vfzClient, d uint64) { c.create(d, "y", 1, u32p(0644)) },
		func(c *vfzClient, d uint64) { c.lookup(d, "y") })
	// READDIR reads the directory, then looks every entry up again: CREATE z and REMOVE x in between
	// make it list {y}, a content the directory never had ({x,y} -> {x,y,z} -> {y,z})
	for _, plus := range []bool{false, true} {
		plus := plus
		nm := "readdir-not-a-snapshot"
		if plus {
			nm = "readdirplus-not-a-snapshot"
		}
		add(nm, vfzCfg{TTL: "min"}, mkfile("x", "y"), "post", "Readdir", "/d",
			func(c *vfzClient, d uint64) { c.readdir(d, plus) },
			func(c *vfzClient, d uint64) { c.create(d, "z", 1, u32p(0644)); c.remove(d, "x") },
			nil)
	}
	// READDIRPLUS fetches the attributes of the entries one by one after reading the names: x REG, y LNK;
	// held after its attribute fetch of x, RENAME y x (x becomes the link) and MKDIR y complete: the reply
	// pairs x REG with y DIR, which never held together
	add("readdirplus-attrs-not-a-snapshot", vfzCfg{TTL: "min"},
		func(boot *vfzClient, d uint64) { boot.create(d, "x", 0, u32p(0644)); boot.symlink(d, "y", "x") },
		"post", "Lstat", "/d/x@1",
		func(c *vfzClient, d uint64) { c.readdir(d, true) },
		func(c *vfzClient, d uint64) { c.rename(d, "y", d, "x"); c.mkdir(d, "y") },
		nil)
	// SETATTR compares the requested mode with the handle's own (stale) idea of the mode (sequential):
	// chmod 0700 through a symbolic link to x, then SETATTR x back to 0644 through x's own handle
	out = append(out, vfzScenario{name: "setattr-trusts-stale-handle-mode", cfg: vfzCfg{TTL: "min"}, run: func(t testing.TB) (*vfzHist, bool) {
		return vfzDirected(t, "setattr-trusts-stale-handle-mode", vfzCfg{TTL: "min"},
			func(boot *vfzClient, d uint64) { boot.create(d, "x", 0, u32p(0644)); boot.symlink(d, "l", "x") }, "", "", "", nil,
			func(c *vfzClient, d uint64) {
				var hl, hx uint64
				for hh, x := range c.hs {
					switch vfzKey(x.p) {
					case "d/l":
						hl = hh
					case "d/x":
						hx = hh
					}
				}
				c.setattr(hl, u32p(0700), nil)
				c.setattr(hx, u32p(0644), nil)
			}, nil)
	}})
	// REMOVE of an (empty) directory leaves the directory's own cached listing behind (sequential)
	out = append(out, vfzScenario{name: "remove-dir-leaves-listing", cfg: vfzCfg{TTL: "def", Dir: true}, run: func(t testing.TB) (*vfzHist, bool) {
		h, ok := vfzDirected(t, "remove-dir-leaves-listing", vfzCfg{TTL: "def", Dir: true},
			func(boot *vfzClient, d uint64) { boot.mkdir(d, "x") }, "", "", "", nil,
			func(c *vfzClient, d uint64) {
				for hh, x := range c.hs {
					if vfzKey(x.p) == "d/x" {
						c.readdir(hh, false)
					}
				}
				c.remove(d, "x")
			}, nil)
		return h, ok
	}})
	return out
}

// vfzFlush writes the buffered lines out (a panic in a handler goroutine kills the process: what
// was recorded before must survive).
func vfzFlush(tr *vfTrace) {
	tr.f.Write(tr.w.Bytes())
	tr.w.Reset()
}

// TestVF_Linearize writes linearize.ndjson (one line per history) and linearize.summary.json.
func TestVF_Linearize(t *testing.T) {
	seed := vfSeed()
	nh := vfEnvInt("VF_HIST", 200)
	contendEvery := vfEnvInt("VF_LIN_CONTEND_EVERY", 5) // every k-th history is a "contend" history
	stormEvery := vfEnvInt("VF_LIN_STORM_EVERY", 10)    // every k-th history is an attribute storm (distinct names)
	roundsEvery := vfEnvInt("VF_LIN_ROUNDS_EVERY", 20)  // every k-th history is a re-export rounds history
	nrounds := vfEnvInt("VF_LIN_ROUNDS", 100)
	tr := vfNewTrace(t, "linearize.ndjson")
	defer tr.Close()
	cfgs := vfzConfigs()
	nontrivial, overlapped, totalOps, deadlocks := 0, 0, 0, 0
	var samples []M
	t0 := time.Now()
	ndirected := 0
	var undriven []string
	if vfEnvInt("VF_LIN_DIRECTED", 1) != 0 {
		for _, sc := range vfzScenarios() {
			fmt.Fprintf(os.Stderr, "VF-LIN-HIST %d\n", -1-ndirected)
			h, ok := sc.run(t)
			if !ok {
				undriven = append(undriven, sc.name)
				continue
			}
			tr.Emit(h.record(-1-ndirected, seed, M{"scenario": sc.name}))
			vfzFlush(tr)
			ndirected++
			h.e.n.Close()
		}
	}
	nnested := 0
	if vfEnvInt("VF_LIN_NESTED", 1) != 0 && vfEnvInt("VF_LIN_DIRECTED", 1) != 0 {
		var hung bool
		nnested, hung = vfzNested(t, tr, seed, -1000)
		if hung {
			deadlocks++
			nh = 0 // (as for a hung history below: stop here)
		}
	}
	npaired := 0
	if nh > 0 && vfEnvInt("VF_LIN_PAIRED", 1) != 0 && vfEnvInt("VF_LIN_DIRECTED", 1) != 0 {
		var hung bool
		npaired, hung = vfzPaired(t, tr, seed, -5000)
		if hung {
			deadlocks++
			nh = 0
		}
	}
	for hi := 0; hi < nh; hi++ {
		fmt.Fprintf(os.Stderr, "VF-LIN-HIST %d\n", hi)
		salt := vfzMix(uint64(seed)*1000003 + uint64(hi))
		r := &vfzRand{s: salt}
		cfg := cfgs[hi%len(cfgs)]
		cfg.Mode = "distinct"
		if contendEvery > 0 && hi%contendEvery == contendEvery-1 {
			cfg.Mode = "contend"
		}
		ncl := 2 + r.Intn(3)
		h := vfzSetup(t, cfg, salt, ncl, r)
		nops := make([]int, ncl)
		for i := range nops {
			nops[i] = 2 + r.Intn(3)
			if cfg.Mode == "contend" {
				nops[i] = 6 + r.Intn(7)
			}
		}
		stepFn := func(c *vfzClient) { c.step() }
		if cfg.Mode == "contend" {
			stepFn = func(c *vfzClient) { c.stepContend(len(c.ops)) }
			if (hi/contendEvery)%2 == 1 {
				for i, c := range h.clients {
					c.burst = true
					nops[i] = 14 + r.Intn(6)
				}
				h.nojitter = true
			}
		} else if stormEvery > 0 && hi%stormEvery == 2 {
			// attribute storm: every client owns files of sizes no other file has
			boot := &vfzClient{e: h.e, id: -1, hs: map[uint64]*vfzHandle{}, kinds: map[string]string{}, r: r, xid: 500}
			boot.hold(h.clients[0].dirs[1], []string{"d"})
			for i, c := range h.clients {
				for j := 0; j < 3; j++ {
					nm := fmt.Sprintf("s%d%d", i, j)
					if rep := boot.create(c.dirs[1], nm, 0, u32p(0644)); rep.OK() {
						if fh, ok := vfFH(vfGet(rep.Res.Val, "object")); ok {
							boot.write(fh, 0, c.dataBytes(1+3*i+j))
							c.hold(fh, []string{"d", nm})
							c.kinds["d/"+nm] = "F"
						}
					}
				}
				nops[i] = 6
			}
			h.init = vfzTree(h.e.vfs)
			h.nojitter = true
			stepFn = func(c *vfzClient) { c.stepStorm() }
		}
		var ok bool
		var dump string
		var roundsRec M
		if roundsEvery > 0 && hi%roundsEvery == 7 {
			// re-export rounds (see vfzHist.rounds): a tree of its own, minimal TTL, no recorded requests
			h.e.n.Close()
			cfg = vfzCfg{TTL: "min", Mode: "contend"}
			h = &vfzHist{e: vfzNewEnv(t, cfg, salt), cfg: cfg}
			for i := 0; i < vfzRoundEntries; i++ {
				h.e.vfs.vfPoke(fmt.Sprintf("/e%d", i), "F", nil, "", 0644)
			}
			ncl = vfEnvInt("VF_LIN_ROUND_CLIENTS", 3)
			for i := 0; i < ncl; i++ {
				h.clients = append(h.clients, &vfzClient{e: h.e, id: i, hs: map[uint64]*vfzHandle{}, kinds: map[string]string{}})
			}
			h.init = []M{}
			roundsRec, ok, dump = h.rounds(nrounds)
		} else {
			ok, dump = h.run(nops, stepFn)
		}
		if !ok {
			deadlocks++
			fmt.Fprintf(os.Stderr, "VF-LIN-DEADLOCK-BEGIN %d\n%s\nVF-LIN-DEADLOCK-END\n", hi, dump)
			// the stuck goroutines still own their clients: record only what is safe to read
			tr.Emit(M{"ev": "hist", "hist": hi, "scenario": "", "seed": int(seed % (1 << 30)), "cfg": cfg, "T": 0, "nclients": ncl, "init": h.init, "ops": []M{},
				"final": h.init, "tab": []M{}, "byp": []M{}, "badnodes": 0, "attr": []M{}, "dirc": []M{}, "expired": 0,
				"rounds": M{"n": 0, "ntab": []int{}, "nbyp": []int{}, "nun": []int{}, "odd": []M{}},
				"events": []M{{"ev": "deadlock", "what": "no request completed for 10 s", "detail": ""}}})
			break
		}
		var extra M
		if roundsRec != nil {
			extra = M{"rounds": roundsRec}
		}
		line := h.record(hi, seed, extra)
		tr.Emit(line)
		vfzFlush(tr)
		ops := line["ops"].([]M)
		totalOps += len(ops)
		// measured non-triviality: at least two requests of different clients overlap in real time
		// and at least two requests succeeded in changing something
		ov, muts := false, 0
		for i, a := range ops {
			for _, b := range ops[i+1:] {
				if a["c"] != b["c"] && b["inv"].(int) < a["resp"].(int) {
					ov = true
				}
			}
			switch a["proc"] {
			case "CREATE", "MKDIR", "SYMLINK", "REMOVE", "RMDIR", "RENAME", "WRITE", "SETATTR":
				if a["ok"].(bool) {
					muts++
				}
			}
		}
		if ov {
			overlapped++
		}
		if ov && muts >= 2 {
			nontrivial++
		}
		if len(samples) < 2 && cfg.Mode == "distinct" && ov {
			var brief []M
			for _, o := range ops {
				b := M{"c": o["c"], "inv": o["inv"], "resp": o["resp"], "proc": o["proc"], "h": o["h"], "st": o["st"]}
				if nm, ok := o["name"]; ok {
					b["name"] = nm
				}
				brief = append(brief, b)
			}
			samples = append(samples, M{"cfg": cfg, "clients": ncl, "ops": brief})
		}
		h.e.n.Close()
	}
	vfWriteJSON(t, "linearize.summary.json", M{"histories": nh, "nontrivial": nontrivial, "overlapped": overlapped, "ops": totalOps,
		"deadlocks": deadlocks, "directed": ndirected, "nested": nnested, "paired": npaired, "undriven": undriven, "samples": samples, "wall_ms": time.Since(t0).Milliseconds(), "completed": true})
	_ = path.Join
}

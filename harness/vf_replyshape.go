package absnfs

// vf_replyshape.go: C14 driver (specs/ReplyShape). Drives every NFSv3 and MOUNT v1/v3 procedure with
// well-formed, truncated and garbage arguments, unknown programs / versions / procedures and refused
// credentials, in each server condition (normal, read-only, rate limited, policy drain), through
// HandleCall and over real TCP (record marking), and logs each reply: RFC 1831 header fields, the
// result as 32-bit words, and the verdict of the generic XDR interpreter driven by the schema TLC
// dumped from specs/ReplyShape (VF_SCHEMA). ReplyShapeTrace decides.
//
//   TestVF_ReplyShape : $VF_OUT/replyshape.ndjson, replyshape.summary.json

import (
	"bytes"
	"encoding/binary"
	"encoding/json"
	"fmt"
	"io"
	"io/fs"
	"math/rand"
	"net"
	"os"
	"sort"
	"sync"
	"sync/atomic"
	"syscall"
	"testing"
	"time"

	"github.com/absfs/absfs"
)

// ---------------------------------------------------------------- schema-driven XDR interpreter

type vfrSchema struct {
	Types map[string]interface{}            `json:"types"`
	Procs map[string]map[string]interface{} `json:"procs"`
}

func vfrLoadSchema(t testing.TB) *vfrSchema {
	p := os.Getenv("VF_SCHEMA")
	b, err := os.ReadFile(p)
	if err != nil {
		t.Fatalf("schema (VF_SCHEMA=%q): %v", p, err)
	}
	s := &vfrSchema{}
	if err := json.Unmarshal(b, s); err != nil {
		t.Fatalf("schema: %v", err)
	}
	if len(s.Procs) == 0 || len(s.Types) == 0 {
		t.Fatalf("schema: empty")
	}
	return s
}

type vfrDec struct {
	b   []byte
	pos int
	err string
	sch *vfrSchema
}

func (d *vfrDec) fail(f string, a ...interface{}) {
	if d.err == "" {
		d.err = fmt.Sprintf(f, a...)
	}
}

func (d *vfrDec) u32() uint32 {
	if d.err != "" {
		return 0
	}
	if d.pos+4 > len(d.b) {
		d.fail("missing bytes")
		return 0
	}
	v := binary.BigEndian.Uint32(d.b[d.pos:])
	d.pos += 4
	return v
}

func (d *vfrDec) skip(n int) {
	if d.err != "" {
		return
	}
	if d.pos+n > len(d.b) {
		d.fail("missing bytes")
		return
	}
	d.pos += n
}

func (d *vfrDec) opaque(max uint32) {
	n := d.u32()
	if d.err != "" {
		return
	}
	if n >= 1<<30 || (max > 0 && n > max) {
		d.fail("opaque length %d", n)
		return
	}
	pn := (int(n) + 3) &^ 3
	if d.pos+pn > len(d.b) {
		d.fail("missing bytes")
		return
	}
	for _, p := range d.b[d.pos+int(n) : d.pos+pn] {
		if p != 0 {
			d.fail("non-zero XDR padding")
		}
	}
	d.pos += pn
}

func (d *vfrDec) value(t interface{}, depth int) {
	if d.err != "" {
		return
	}
	if depth > 64 {
		d.fail("schema too deep")
		return
	}
	switch tt := t.(type) {
	case string:
		switch tt {
		case "u32":
			d.u32()
		case "u64", "verf8":
			d.skip(8)
		case "fh32":
			d.skip(32)
		case "bool":
			if v := d.u32(); v > 1 {
				d.fail("bool value %d", v)
			}
		case "string", "opaque":
			d.opaque(0)
		case "fh":
			d.opaque(64)
		default:
			d.fail("unknown schema type %q", tt)
		}
	case []interface{}:
		kind, _ := tt[0].(string)
		switch kind {
		case "ref":
			name, _ := tt[1].(string)
			rt, ok := d.sch.Types[name]
			if !ok {
				d.fail("dangling ref %q", name)
				return
			}
			d.value(rt, depth+1)
		case "struct":
			fields, _ := tt[1].([]interface{})
			for _, f := range fields {
				ff := f.([]interface{})
				d.value(ff[1], depth+1)
			}
		case "opt":
			switch d.u32() {
			case 0:
			case 1:
				d.value(tt[1], depth+1)
			default:
				d.fail("optional discriminant")
			}
		case "list":
			for n := 0; d.err == ""; n++ {
				more := d.u32()
				if d.err != "" || more == 0 {
					return
				}
				if more != 1 || n > 1<<20 {
					d.fail("list discriminant")
					return
				}
				d.value(tt[1], depth+1)
			}
		case "array":
			n := d.u32()
			if n > 1<<16 {
				d.fail("array length %d", n)
				return
			}
			for i := uint32(0); i < n && d.err == ""; i++ {
				d.value(tt[1], depth+1)
			}
		default:
			d.fail("bad schema node")
		}
	default:
		d.fail("bad schema node")
	}
}

// vfrGo is the interpreter's verdict on one result body.
type vfrGo struct {
	OK       bool   `json:"ok"`       // decoded exactly: nothing missing, nothing left over
	Status   int    `json:"status"`   // leading status word (-1: none / >= 2^30)
	Trailing int    `json:"trailing"` // bytes left after the value
	Err      string `json:"err"`      // "" or the reason
}

func (s *vfrSchema) decodeAs(proc string, body []byte) vfrGo {
	p, ok := s.Procs[proc]
	if !ok {
		return vfrGo{Err: "no schema for " + proc, Status: -1}
	}
	d := &vfrDec{b: body, sch: s}
	out := vfrGo{Status: -1}
	if v, void := p["void"]; void && v == true {
		// nothing to decode
	} else if pt, plain := p["plain"]; plain {
		d.value(pt, 0)
	} else {
		st := d.u32()
		if d.err == "" {
			if st < 1<<30 {
				out.Status = int(st)
			}
			if st == 0 {
				d.value(p["ok"], 0)
			} else {
				d.value(p["fail"], 0)
			}
		}
	}
	out.Err = d.err
	out.Trailing = len(body) - d.pos
	out.OK = d.err == "" && out.Trailing == 0
	return out
}

// Decode applies the either-rule for MOUNT v1 (RFC 1094 form or the v3 form of the same procedure).
func (s *vfrSchema) Decode(proc string, body []byte) vfrGo {
	r := s.decodeAs(proc, body)
	if !r.OK && len(proc) > 7 && proc[:7] == "MOUNT1." {
		if r3 := s.decodeAs("MOUNT3."+proc[7:], body); r3.OK {
			return r3
		}
	}
	return r
}

// vfrSchemaDiff compares the harness's built-in schema (vf_common.go) with the one dumped from the
// specification, for every type and procedure the built-in one has. A difference is a harness defect.
func vfrSchemaDiff(s *vfrSchema) []string {
	canon := func(v interface{}) string {
		b, _ := json.Marshal(v)
		var x interface{}
		json.Unmarshal(b, &x)
		b, _ = json.Marshal(x)
		// an empty field list is a nil slice in vf_common.go (JSON null) and [] in the dump: the same thing
		return string(bytes.ReplaceAll(b, []byte("null"), []byte("[]")))
	}
	var diff []string
	bi := vfBuiltinSchema()
	for name, t := range bi.Types {
		if st, ok := s.Types[name]; !ok || canon(st) != canon(t) {
			diff = append(diff, "type "+name)
		}
	}
	for name, p := range bi.Procs {
		sp, ok := s.Procs[name]
		if !ok {
			diff = append(diff, "proc "+name+" missing")
			continue
		}
		for k, v := range p {
			if canon(sp[k]) != canon(v) {
				diff = append(diff, "proc "+name+"."+k)
			}
		}
	}
	sort.Strings(diff)
	return diff
}

// ---------------------------------------------------------------- RFC 1831 reply parsing (generic, no absnfs code)

type vfrReply struct {
	Present bool
	XID     uint32
	HdrOK   bool
	RPC     string // "accepted" | "denied" | "none"
	Accept  int
	Rej     int
	Auth    int
	Body    []byte // after accept_stat (accepted) / after reject_stat + auth_stat (denied: the rest)
}

func vfrParseReply(b []byte) vfrReply {
	r := vfrReply{Present: true, RPC: "none"}
	if len(b) < 12 {
		return r
	}
	r.XID = binary.BigEndian.Uint32(b[0:4])
	mtype := binary.BigEndian.Uint32(b[4:8])
	rstat := binary.BigEndian.Uint32(b[8:12])
	if mtype != 1 || rstat > 1 {
		return r
	}
	if rstat == 1 {
		r.RPC = "denied"
		if len(b) < 16 {
			return r
		}
		rej := binary.BigEndian.Uint32(b[12:16])
		if rej > 1<<20 {
			return r
		}
		r.Rej = int(rej)
		rest := b[16:]
		if rej == 1 { // AUTH_ERROR: one auth_stat
			if len(rest) < 4 {
				return r
			}
			a := binary.BigEndian.Uint32(rest[0:4])
			if a > 1<<20 {
				a = 1 << 20
			}
			r.Auth = int(a)
			rest = rest[4:]
		}
		r.HdrOK = true
		r.Body = rest
		return r
	}
	r.RPC = "accepted"
	if len(b) < 24 {
		return r
	}
	vlen := binary.BigEndian.Uint32(b[16:20])
	if vlen > 400 {
		return r
	}
	off := 20 + (int(vlen)+3)&^3
	if len(b) < off+4 {
		return r
	}
	a := binary.BigEndian.Uint32(b[off : off+4])
	if a > 1<<20 {
		a = 1 << 20
	}
	r.Accept = int(a)
	r.HdrOK = true
	r.Body = b[off+4:]
	return r
}

func vfrWords(b []byte, max int) ([]int, bool) {
	n := len(b) / 4
	if n > max {
		return []int{}, false
	}
	out := make([]int, n)
	for i := 0; i < n; i++ {
		w := binary.BigEndian.Uint32(b[4*i:])
		if w >= 1<<30 {
			out[i] = -1
		} else {
			out[i] = int(w)
		}
	}
	return out, true
}

// vfrCallBytes encodes an RPC call message (header + args), independent of the server code.
func vfrCallBytes(xid, prog, vers, proc uint32, cflavor uint32, cbody []byte, args []byte) []byte {
	var b bytes.Buffer
	for _, x := range []uint32{xid, 0, 2, prog, vers, proc, cflavor} {
		binary.Write(&b, binary.BigEndian, x)
	}
	vfEncOpaque(&b, cbody)
	binary.Write(&b, binary.BigEndian, uint32(0))
	binary.Write(&b, binary.BigEndian, uint32(0))
	b.Write(args)
	return b.Bytes()
}

// ---------------------------------------------------------------- TCP client (record marking)

type vfrConn struct {
	c net.Conn
}

func vfrDial(t testing.TB, port int) *vfrConn {
	c, err := net.DialTimeout("tcp", fmt.Sprintf("127.0.0.1:%d", port), 5*time.Second)
	if err != nil {
		t.Fatalf("dial: %v", err)
	}
	return &vfrConn{c: c}
}

func (c *vfrConn) Close() { c.c.Close() }

func (c *vfrConn) SendRecord(msg []byte) error {
	var h [4]byte
	binary.BigEndian.PutUint32(h[:], uint32(len(msg))|0x80000000)
	c.c.SetWriteDeadline(time.Now().Add(5 * time.Second))
	_, err := c.c.Write(append(h[:], msg...))
	return err
}

// ReadRecord reads one record-marked reply (client-side reassembly written here, not the server's reader).
func (c *vfrConn) ReadRecord(timeout time.Duration) ([]byte, error) {
	var out []byte
	c.c.SetReadDeadline(time.Now().Add(timeout))
	for {
		var h [4]byte
		if _, err := io.ReadFull(c.c, h[:]); err != nil {
			return nil, err
		}
		w := binary.BigEndian.Uint32(h[:])
		n := int(w &^ 0x80000000)
		if n > 8<<20 {
			return nil, fmt.Errorf("reply fragment of %d bytes", n)
		}
		frag := make([]byte, n)
		if _, err := io.ReadFull(c.c, frag); err != nil {
			return nil, err
		}
		out = append(out, frag...)
		if w&0x80000000 != 0 {
			return out, nil
		}
	}
}

// vfrListen starts the real server of env on a loopback port with record marking.
func vfrListen(t testing.TB, e *vfEnv) int {
	e.srv.options.UseRecordMarking = true
	e.srv.options.Hostname = "127.0.0.1"
	e.srv.options.Port = 0
	if err := e.srv.Listen(); err != nil {
		t.Fatalf("listen: %v", err)
	}
	return e.srv.options.Port
}

// ---------------------------------------------------------------- scenario

type vfrCase struct {
	Prog, Vers, Proc uint32
	Args             []byte
	Class            string // good | trunc | garbage | badcred
	Note             string
	Cred             vfCred
}

type vfrHandles struct {
	root, file, dir, link, big, stale uint64
}

func vfrPopulate(fs *vfsFS) {
	data := make([]byte, 100)
	for i := range data {
		data[i] = byte('a' + i%26)
	}
	fs.vfPoke("/f", "F", data, "", 0644)
	fs.vfPoke("/big", "F", make([]byte, 200000), "", 0644)
	fs.vfPoke("/d", "D", nil, "", 0755)
	fs.vfPoke("/d/a", "F", []byte("x"), "", 0644)
	fs.vfPoke("/d/bb", "F", []byte("yy"), "", 0600)
	fs.vfPoke("/d/sub", "D", nil, "", 0755)
	fs.vfPoke("/l", "L", nil, "f", 0777)
	fs.vfPoke("/e", "D", nil, "", 0755)
}

func vfrLookupHandle(t testing.TB, e *vfEnv, dir uint64, name string) uint64 {
	r := e.Do(NFSPROC3_LOOKUP, vfArgsDirOp(dir, name), vfRoot)
	if !r.OK() {
		t.Fatalf("setup LOOKUP %s: %s", name, r.StatusName())
	}
	h, ok := vfFH(vfGet(r.Res.Val, "object"))
	if !ok {
		t.Fatalf("setup LOOKUP %s: no handle", name)
	}
	return h
}

func vfrGetHandles(t testing.TB, e *vfEnv) vfrHandles {
	h := vfrHandles{stale: 0xdeadbeefcafe}
	h.root = e.Mount(t, vfRoot)
	h.file = vfrLookupHandle(t, e, h.root, "f")
	h.dir = vfrLookupHandle(t, e, h.root, "d")
	h.link = vfrLookupHandle(t, e, h.root, "l")
	h.big = vfrLookupHandle(t, e, h.root, "big")
	return h
}

// vfrGoodCases: well-formed arguments for every procedure, several per procedure so that success and a
// range of failure statuses are reached. The first case of each procedure is its primary one (used for
// truncation).
func vfrGoodCases(h vfrHandles, round int) map[uint32][]vfrCase {
	n := func(proc uint32, note string, args []byte) vfrCase {
		return vfrCase{Prog: NFS_PROGRAM, Vers: NFS_V3, Proc: proc, Args: args, Class: "good", Note: note, Cred: vfRoot}
	}
	sfx := fmt.Sprintf("%d", round)
	var zero8 [8]byte
	mode := vfSattr{Mode: u32p(0640)}
	out := map[uint32][]vfrCase{}
	add := func(c vfrCase) { out[c.Proc] = append(out[c.Proc], c) }
	add(n(0, "null", nil))
	add(n(0, "null+args", []byte{1, 2, 3, 4}))
	for _, x := range []struct {
		n string
		h uint64
	}{{"root", h.root}, {"file", h.file}, {"stale", h.stale}} {
		add(n(1, "getattr "+x.n, vfArgsFH(x.h)))
	}
	add(n(2, "setattr mode", vfArgsSetattr(h.file, mode, nil)))
	add(n(2, "setattr size", vfArgsSetattr(h.file, vfSattr{Size: u64p(50)}, nil)))
	add(n(2, "setattr guard mismatch", vfArgsSetattr(h.file, mode, &[2]uint32{1, 2})))
	add(n(2, "setattr stale", vfArgsSetattr(h.stale, mode, nil)))
	add(n(2, "setattr times", vfArgsSetattr(h.file, vfSattr{AtimeHow: 2, MtimeHow: 1, Atime: [2]uint32{5, 6}}, nil)))
	add(n(3, "lookup f", vfArgsDirOp(h.root, "f")))
	add(n(3, "lookup missing", vfArgsDirOp(h.root, "nope"+sfx)))
	add(n(3, "lookup in file", vfArgsDirOp(h.file, "x")))
	add(n(3, "lookup dotdot", vfArgsDirOp(h.dir, "..")))
	add(n(3, "lookup stale", vfArgsDirOp(h.stale, "f")))
	add(n(3, "lookup long name", vfArgsDirOp(h.root, string(bytes.Repeat([]byte("n"), 300)))))
	add(n(4, "access file", vfArgsAccess(h.file, 0x3f)))
	add(n(4, "access stale", vfArgsAccess(h.stale, 1)))
	add(n(5, "readlink l", vfArgsFH(h.link)))
	add(n(5, "readlink file", vfArgsFH(h.file)))
	add(n(5, "readlink stale", vfArgsFH(h.stale)))
	add(n(6, "read f", vfArgsRead(h.file, 0, 40)))
	add(n(6, "read odd", vfArgsRead(h.file, 3, 7)))
	add(n(6, "read eof", vfArgsRead(h.file, 1000, 10)))
	add(n(6, "read dir", vfArgsRead(h.dir, 0, 10)))
	add(n(6, "read large", vfArgsRead(h.big, 0, 70000)))
	add(n(6, "read offset overflow", vfArgsRead(h.file, ^uint64(0)-3, 10)))
	add(n(6, "read stale", vfArgsRead(h.stale, 0, 10)))
	add(n(7, "write f", vfArgsWrite(h.file, 10, 2, []byte("hello"))))
	add(n(7, "write empty", vfArgsWrite(h.file, 0, 0, nil)))
	add(n(7, "write dir", vfArgsWrite(h.dir, 0, 2, []byte("zz"))))
	add(n(7, "write large", vfArgsWrite(h.big, 0, 2, make([]byte, 70000))))
	add(n(7, "write stale", vfArgsWrite(h.stale, 0, 2, []byte("q"))))
	add(n(8, "create unchecked", vfArgsCreate(h.dir, "c"+sfx, 0, mode, zero8)))
	add(n(8, "create guarded existing", vfArgsCreate(h.root, "f", 1, mode, zero8)))
	add(n(8, "create exclusive", vfArgsCreate(h.dir, "x"+sfx, 2, vfSattr{}, [8]byte{1, 2, 3})))
	add(n(8, "create in file", vfArgsCreate(h.file, "c", 0, mode, zero8)))
	add(n(8, "create bad name", vfArgsCreate(h.dir, "a/b", 0, mode, zero8)))
	add(n(8, "create bad mode", vfArgsCreate(h.dir, "m"+sfx, 0, vfSattr{Mode: u32p(0100644)}, zero8)))
	add(n(8, "create stale", vfArgsCreate(h.stale, "c", 0, mode, zero8)))
	add(n(9, "mkdir new", vfArgsMkdir(h.dir, "k"+sfx, mode)))
	add(n(9, "mkdir existing", vfArgsMkdir(h.root, "d", mode)))
	add(n(9, "mkdir stale", vfArgsMkdir(h.stale, "k", mode)))
	add(n(10, "symlink new", vfArgsSymlink(h.dir, "s"+sfx, vfSattr{}, "a")))
	add(n(10, "symlink absolute", vfArgsSymlink(h.dir, "t"+sfx, vfSattr{}, "/etc/passwd")))
	add(n(10, "symlink existing", vfArgsSymlink(h.root, "f", vfSattr{}, "a")))
	add(n(10, "symlink empty target", vfArgsSymlink(h.dir, "u"+sfx, vfSattr{}, "")))
	add(n(11, "mknod", vfArgsMknod(h.dir, "nod", 6)))
	add(n(12, "remove missing", vfArgsDirOp(h.dir, "zz"+sfx)))
	add(n(12, "remove a dir", vfArgsDirOp(h.root, "e")))
	add(n(12, "remove stale", vfArgsDirOp(h.stale, "a")))
	add(n(13, "rmdir non-empty", vfArgsDirOp(h.root, "d")))
	add(n(13, "rmdir file", vfArgsDirOp(h.root, "f")))
	add(n(13, "rmdir missing", vfArgsDirOp(h.root, "zz")))
	add(n(14, "rename missing", vfArgsRename(h.dir, "zz", h.dir, "yy")))
	add(n(14, "rename a", vfArgsRename(h.dir, "a", h.dir, "a"+sfx)))
	add(n(14, "rename stale", vfArgsRename(h.stale, "a", h.dir, "b")))
	add(n(15, "link", vfArgsLink(h.file, h.dir, "hl")))
	add(n(16, "readdir d", vfArgsReaddir(h.dir, 0, zero8, 4096)))
	add(n(16, "readdir small", vfArgsReaddir(h.dir, 0, zero8, 0)))
	add(n(16, "readdir cookie", vfArgsReaddir(h.dir, 2, zero8, 4096)))
	add(n(16, "readdir file", vfArgsReaddir(h.file, 0, zero8, 4096)))
	add(n(16, "readdir stale", vfArgsReaddir(h.stale, 0, zero8, 4096)))
	add(n(17, "readdirplus d", vfArgsReaddirplus(h.dir, 0, zero8, 4096, 8192)))
	add(n(17, "readdirplus root", vfArgsReaddirplus(h.root, 0, zero8, 512, 1024)))
	add(n(17, "readdirplus file", vfArgsReaddirplus(h.file, 0, zero8, 4096, 8192)))
	add(n(18, "fsstat", vfArgsFH(h.root)))
	add(n(18, "fsstat stale", vfArgsFH(h.stale)))
	add(n(19, "fsinfo", vfArgsFH(h.root)))
	add(n(19, "fsinfo stale", vfArgsFH(h.stale)))
	add(n(20, "pathconf", vfArgsFH(h.file)))
	add(n(20, "pathconf stale", vfArgsFH(h.stale)))
	add(n(21, "commit", vfArgsCommit(h.file, 0, 0)))
	add(n(21, "commit stale", vfArgsCommit(h.stale, 0, 10)))
	return out
}

func vfrMountCases(vers uint32) map[uint32][]vfrCase {
	m := func(proc uint32, note string, args []byte) vfrCase {
		return vfrCase{Prog: MOUNT_PROGRAM, Vers: vers, Proc: proc, Args: args, Class: "good", Note: note, Cred: vfRoot}
	}
	str := func(s string) []byte { var b bytes.Buffer; xdrEncodeString(&b, s); return b.Bytes() }
	out := map[uint32][]vfrCase{}
	add := func(c vfrCase) { out[c.Proc] = append(out[c.Proc], c) }
	add(m(0, "mount null", nil))
	add(m(1, "mnt /", str("/")))
	add(m(1, "mnt /d", str("/d")))
	add(m(1, "mnt missing", str("/nope")))
	add(m(1, "mnt relative", str("x")))
	add(m(2, "dump", nil))
	add(m(3, "umnt", str("/")))
	add(m(4, "umntall", nil))
	add(m(5, "export", nil))
	return out
}

// vfrAllCases: the full case list for one server condition.
func vfrAllCases(r *rand.Rand, h vfrHandles, round int, trunc bool) []vfrCase {
	var cases []vfrCase
	groups := []map[uint32][]vfrCase{vfrGoodCases(h, round), vfrMountCases(3), vfrMountCases(1)}
	for _, g := range groups {
		procs := []int{}
		for p := range g {
			procs = append(procs, int(p))
		}
		sort.Ints(procs)
		for _, p := range procs {
			cs := g[uint32(p)]
			cases = append(cases, cs...)
			prim := cs[0]
			if p == 0 && prim.Prog == NFS_PROGRAM {
				prim = cs[1]
			}
			if trunc {
				// the primary arguments cut at every 4-byte boundary (and once inside a word)
				for k := 0; k < len(prim.Args); k += 4 {
					c := prim
					c.Args, c.Class, c.Note = prim.Args[:k], "trunc", fmt.Sprintf("%s cut at %d", prim.Note, k)
					cases = append(cases, c)
				}
				if len(prim.Args) > 6 {
					c := prim
					c.Args, c.Class, c.Note = prim.Args[:len(prim.Args)-3], "trunc", prim.Note+" cut inside the last word"
					cases = append(cases, c)
				}
			}
			// garbage: random bytes, a huge declared length, all ones
			for gi := 0; gi < 3; gi++ {
				c := prim
				c.Class = "garbage"
				switch gi {
				case 0:
					c.Args, c.Note = vfwFill(r, r.Intn(48)), "random bytes"
				case 1:
					c.Args, c.Note = append([]byte{0x7f, 0xff, 0xff, 0xff}, vfwFill(r, 16)...), "huge length word"
				case 2:
					c.Args, c.Note = bytes.Repeat([]byte{0xff}, 4*(1+r.Intn(12))), "all ones"
				}
				cases = append(cases, c)
			}
		}
	}
	// a well-formed handle followed by a string whose declared length is beyond the limit / the data
	for _, p := range []uint32{3, 8, 9, 12, 14} {
		var b bytes.Buffer
		xdrEncodeFileHandle(&b, h.root)
		xdrEncodeUint32(&b, 9000)
		b.Write(make([]byte, 64))
		cases = append(cases, vfrCase{Prog: NFS_PROGRAM, Vers: 3, Proc: p, Args: b.Bytes(), Class: "garbage", Note: "name longer than the string limit", Cred: vfRoot})
	}
	// unknown programs, versions, procedures
	unk := func(prog, vers, proc uint32, note string) {
		cases = append(cases, vfrCase{Prog: prog, Vers: vers, Proc: proc, Args: vfArgsFH(h.root), Class: "good", Note: note, Cred: vfRoot})
	}
	for _, pg := range []uint32{100000, 100021, 200000, 0, 100004} {
		unk(pg, 3, 1, "unknown program")
	}
	for _, v := range []uint32{0, 2, 4, 1 << 20} {
		unk(NFS_PROGRAM, v, 1, "unsupported NFS version")
	}
	for _, v := range []uint32{0, 2, 4} {
		unk(MOUNT_PROGRAM, v, 1, "unsupported MOUNT version")
	}
	for _, p := range []uint32{22, 23, 100, 1 << 20} {
		unk(NFS_PROGRAM, 3, p, "unknown NFS procedure")
	}
	for _, p := range []uint32{6, 7, 100} {
		unk(MOUNT_PROGRAM, 3, p, "unknown MOUNT procedure")
		unk(MOUNT_PROGRAM, 1, p, "unknown MOUNT v1 procedure")
	}
	// refused credentials
	for _, c := range []vfCred{{Flavor: 6, IP: "127.0.0.1", Port: 1000}, {Flavor: AUTH_SYS, Raw: []byte{1, 2, 3}, IP: "127.0.0.1", Port: 1000},
		{Flavor: AUTH_SYS, Raw: []byte{}, IP: "127.0.0.1", Port: 1000}} {
		cases = append(cases, vfrCase{Prog: NFS_PROGRAM, Vers: 3, Proc: 1, Args: vfArgsFH(h.root), Class: "badcred", Note: "refused credential", Cred: c})
		cases = append(cases, vfrCase{Prog: MOUNT_PROGRAM, Vers: 3, Proc: 1, Args: []byte{0, 0, 0, 1, '/', 0, 0, 0}, Class: "badcred", Note: "refused credential", Cred: c})
	}
	return cases
}

var vfrProcNames = map[uint32]map[uint32][]string{
	NFS_PROGRAM: {3: {"NULL", "GETATTR", "SETATTR", "LOOKUP", "ACCESS", "READLINK", "READ", "WRITE", "CREATE", "MKDIR", "SYMLINK", "MKNOD",
		"REMOVE", "RMDIR", "RENAME", "LINK", "READDIR", "READDIRPLUS", "FSSTAT", "FSINFO", "PATHCONF", "COMMIT"}},
	MOUNT_PROGRAM: {1: {"NULL", "MNT", "DUMP", "UMNT", "UMNTALL", "EXPORT"}, 3: {"NULL", "MNT", "DUMP", "UMNT", "UMNTALL", "EXPORT"}},
}

// vfrSchemaName is only used to pick the schema entry for the Go interpreter's cross-check; the trace
// spec derives the name itself from (prog, vers, proc).
func vfrSchemaName(prog, vers, proc uint32) string {
	names := vfrProcNames[prog][vers]
	if int(proc) >= len(names) {
		return ""
	}
	pfx := "NFS3."
	if prog == MOUNT_PROGRAM {
		pfx = fmt.Sprintf("MOUNT%d.", vers)
	}
	return pfx + names[proc]
}

func vfrSmall(v uint32) int {
	if v >= 1<<30 {
		return 1<<30 - 1
	}
	return int(v)
}

// vfrLine builds the trace line for one answered (or unanswered) call.
func vfrLine(sch *vfrSchema, state, via string, c *vfrCase, xid uint32, wire []byte, answered bool, elapsed time.Duration) M {
	m := M{"ev": "call", "state": state, "via": via, "prog": vfrSmall(c.Prog), "vers": vfrSmall(c.Vers), "proc": vfrSmall(c.Proc),
		"args": c.Class, "note": c.Note, "nargs": len(c.Args), "answered": answered,
		"rpc": "none", "xid_ok": true, "hdr_ok": true, "accept": 0, "rej": 0, "auth": 0, "words": []int{}, "wl": true, "tail": 0,
		"nbody": 0, "go": vfrGo{OK: true, Status: -1}, "ms": int(elapsed / time.Millisecond)}
	if !answered {
		return m
	}
	r := vfrParseReply(wire)
	m["rpc"], m["xid_ok"], m["hdr_ok"], m["accept"], m["rej"], m["auth"] = r.RPC, len(wire) >= 4 && r.XID == xid, r.HdrOK, r.Accept, r.Rej, r.Auth
	m["nbody"], m["tail"] = len(r.Body), len(r.Body)%4
	ws, logged := vfrWords(r.Body, 600)
	m["words"], m["wl"] = ws, logged
	if r.HdrOK && r.RPC == "accepted" && r.Accept == SUCCESS {
		if name := vfrSchemaName(c.Prog, c.Vers, c.Proc); name != "" {
			m["go"] = sch.Decode(name, r.Body)
		}
	}
	return m
}

// vfrDrain holds one request in the backend and starts a policy update, so that the handler's
// TryRLock fails for every call issued until release() is called.
func vfrDrain(t testing.TB, e *vfEnv, h vfrHandles) (release func()) {
	var armed atomic.Bool
	reached := make(chan struct{})
	gate := make(chan struct{})
	e.fs.Gate = func(op, p string) {
		if armed.CompareAndSwap(true, false) {
			close(reached)
			<-gate
		}
	}
	armed.Store(true)
	var wg sync.WaitGroup
	wg.Add(1)
	go func() {
		defer wg.Done()
		e.Call(NFS_PROGRAM, NFS_V3, NFSPROC3_LOOKUP, vfArgsDirOp(h.root, "held-request"), vfRoot)
	}()
	select {
	case <-reached:
	case <-time.After(10 * time.Second):
		t.Fatalf("drain: the held request never reached the backend")
	}
	pol := *e.n.policy.Load()
	wg.Add(1)
	go func() {
		defer wg.Done()
		if err := e.n.UpdatePolicyOptions(pol); err != nil {
			t.Errorf("UpdatePolicyOptions: %v", err)
		}
	}()
	deadline := time.Now().Add(10 * time.Second)
	for {
		if e.n.policyRWMu.TryRLock() {
			e.n.policyRWMu.RUnlock()
			if time.Now().After(deadline) {
				t.Fatalf("drain: the update never started waiting for the write lock")
			}
			time.Sleep(time.Millisecond)
			continue
		}
		break
	}
	return func() {
		close(gate)
		wg.Wait()
		e.fs.Gate = nil
	}
}

// vfrExhaustBuckets empties the per-operation buckets of the client so that the next call of each
// limited kind is refused.
func vfrExhaustBuckets(e *vfEnv, ip string) {
	rl := e.n.rateLimiter.Load()
	if rl == nil {
		return
	}
	for _, op := range []OperationType{OpTypeReadLarge, OpTypeWriteLarge, OpTypeReaddir, OpTypeMount} {
		for i := 0; i < 64 && rl.AllowOperation(ip, op); i++ {
		}
	}
}

// ---------------------------------------------------------------- a backend that fails on demand

// vfrFaultFS is the vfs backend with one injected failure: the k-th backend operation after arm()
// fails with *os.PathError / *os.LinkError wrapping the chosen errno (what a real file system reports:
// EBUSY, ELOOP, ENOTEMPTY, EINTR, ESTALE, ...). Everything else goes to vfs unchanged.
type vfrFaultFS struct {
	*vfsFS
	mu    sync.Mutex
	at    int
	n     int
	errno syscall.Errno
	fired string
}

func (f *vfrFaultFS) arm(k int, e syscall.Errno) {
	f.mu.Lock()
	f.at, f.n, f.errno, f.fired = k, 0, e, ""
	f.mu.Unlock()
}

func (f *vfrFaultFS) disarm() string {
	f.mu.Lock()
	defer f.mu.Unlock()
	f.at = 0
	return f.fired
}

func (f *vfrFaultFS) hit(op, p, p2 string) error {
	f.mu.Lock()
	defer f.mu.Unlock()
	if f.at == 0 {
		return nil
	}
	f.n++
	if f.n != f.at {
		return nil
	}
	f.fired = op
	if p2 != "" {
		return &os.LinkError{Op: op, Old: p, New: p2, Err: f.errno}
	}
	return &os.PathError{Op: op, Path: p, Err: f.errno}
}

func (f *vfrFaultFS) OpenFile(name string, flag int, perm os.FileMode) (absfs.File, error) {
	if err := f.hit("open", name, ""); err != nil {
		return nil, err
	}
	fl, err := f.vfsFS.OpenFile(name, flag, perm)
	if err != nil {
		return nil, err
	}
	return &vfrFaultFile{File: fl, fs: f, name: name}, nil
}
func (f *vfrFaultFS) Open(name string) (absfs.File, error) { return f.OpenFile(name, os.O_RDONLY, 0) }
func (f *vfrFaultFS) Create(name string) (absfs.File, error) {
	return f.OpenFile(name, os.O_RDWR|os.O_CREATE|os.O_TRUNC, 0666)
}
func (f *vfrFaultFS) Mkdir(name string, perm os.FileMode) error {
	if err := f.hit("mkdir", name, ""); err != nil {
		return err
	}
	return f.vfsFS.Mkdir(name, perm)
}
func (f *vfrFaultFS) MkdirAll(name string, perm os.FileMode) error {
	if err := f.hit("mkdir", name, ""); err != nil {
		return err
	}
	return f.vfsFS.MkdirAll(name, perm)
}
func (f *vfrFaultFS) Remove(name string) error {
	if err := f.hit("remove", name, ""); err != nil {
		return err
	}
	return f.vfsFS.Remove(name)
}
func (f *vfrFaultFS) RemoveAll(name string) error {
	if err := f.hit("remove", name, ""); err != nil {
		return err
	}
	return f.vfsFS.RemoveAll(name)
}
func (f *vfrFaultFS) Rename(o, n string) error {
	if err := f.hit("rename", o, n); err != nil {
		return err
	}
	return f.vfsFS.Rename(o, n)
}
func (f *vfrFaultFS) Stat(name string) (os.FileInfo, error) {
	if err := f.hit("stat", name, ""); err != nil {
		return nil, err
	}
	return f.vfsFS.Stat(name)
}
func (f *vfrFaultFS) Lstat(name string) (os.FileInfo, error) {
	if err := f.hit("lstat", name, ""); err != nil {
		return nil, err
	}
	return f.vfsFS.Lstat(name)
}
func (f *vfrFaultFS) Chmod(name string, m os.FileMode) error {
	if err := f.hit("chmod", name, ""); err != nil {
		return err
	}
	return f.vfsFS.Chmod(name, m)
}
func (f *vfrFaultFS) Chtimes(name string, a, m time.Time) error {
	if err := f.hit("chtimes", name, ""); err != nil {
		return err
	}
	return f.vfsFS.Chtimes(name, a, m)
}
func (f *vfrFaultFS) Chown(name string, u, g int) error {
	if err := f.hit("chown", name, ""); err != nil {
		return err
	}
	return f.vfsFS.Chown(name, u, g)
}
func (f *vfrFaultFS) Lchown(name string, u, g int) error {
	if err := f.hit("lchown", name, ""); err != nil {
		return err
	}
	return f.vfsFS.Lchown(name, u, g)
}
func (f *vfrFaultFS) ReadDir(name string) ([]fs.DirEntry, error) {
	if err := f.hit("readdir", name, ""); err != nil {
		return nil, err
	}
	return f.vfsFS.ReadDir(name)
}
func (f *vfrFaultFS) ReadFile(name string) ([]byte, error) {
	if err := f.hit("read", name, ""); err != nil {
		return nil, err
	}
	return f.vfsFS.ReadFile(name)
}
func (f *vfrFaultFS) Truncate(name string, size int64) error {
	if err := f.hit("truncate", name, ""); err != nil {
		return err
	}
	return f.vfsFS.Truncate(name, size)
}
func (f *vfrFaultFS) Readlink(name string) (string, error) {
	if err := f.hit("readlink", name, ""); err != nil {
		return "", err
	}
	return f.vfsFS.Readlink(name)
}
func (f *vfrFaultFS) Symlink(o, n string) error {
	if err := f.hit("symlink", o, n); err != nil {
		return err
	}
	return f.vfsFS.Symlink(o, n)
}

type vfrFaultFile struct {
	absfs.File
	fs   *vfrFaultFS
	name string
}

func (x *vfrFaultFile) Read(b []byte) (int, error) {
	if err := x.fs.hit("read", x.name, ""); err != nil {
		return 0, err
	}
	return x.File.Read(b)
}
func (x *vfrFaultFile) ReadAt(b []byte, off int64) (int, error) {
	if err := x.fs.hit("read", x.name, ""); err != nil {
		return 0, err
	}
	return x.File.ReadAt(b, off)
}
func (x *vfrFaultFile) Write(b []byte) (int, error) {
	if err := x.fs.hit("write", x.name, ""); err != nil {
		return 0, err
	}
	return x.File.Write(b)
}
func (x *vfrFaultFile) WriteAt(b []byte, off int64) (int, error) {
	if err := x.fs.hit("write", x.name, ""); err != nil {
		return 0, err
	}
	return x.File.WriteAt(b, off)
}
func (x *vfrFaultFile) Sync() error {
	if err := x.fs.hit("sync", x.name, ""); err != nil {
		return err
	}
	return x.File.Sync()
}
func (x *vfrFaultFile) Stat() (os.FileInfo, error) {
	if err := x.fs.hit("stat", x.name, ""); err != nil {
		return nil, err
	}
	return x.File.Stat()
}
func (x *vfrFaultFile) Truncate(size int64) error {
	if err := x.fs.hit("truncate", x.name, ""); err != nil {
		return err
	}
	return x.File.Truncate(size)
}
func (x *vfrFaultFile) Readdir(n int) ([]os.FileInfo, error) {
	if err := x.fs.hit("readdir", x.name, ""); err != nil {
		return nil, err
	}
	return x.File.Readdir(n)
}

func vfrDropCaches(e *vfEnv) {
	if e.n.attrCache != nil {
		e.n.attrCache.Clear()
	}
	if e.n.dirCache != nil {
		e.n.dirCache.Clear()
	}
}

// errnos a backend may report; most have no case of their own in an errno -> nfsstat3 mapping
var vfrErrnos = []syscall.Errno{syscall.EBUSY, syscall.ELOOP, syscall.ENOTEMPTY, syscall.EINTR, syscall.ENOMEM, syscall.ETXTBSY,
	syscall.ENOSYS, syscall.EXDEV, syscall.EMLINK, syscall.ENOSPC, syscall.EDQUOT, syscall.EROFS, syscall.ESTALE, syscall.EIO,
	syscall.EAGAIN, syscall.ENFILE, syscall.EMFILE, syscall.E2BIG, syscall.ERANGE, syscall.EFBIG, syscall.ENODEV, syscall.ENXIO,
	syscall.EOPNOTSUPP, syscall.ENAMETOOLONG, syscall.EACCES, syscall.EPERM, syscall.EEXIST, syscall.ENOENT, syscall.ENOTDIR,
	syscall.EISDIR, syscall.EINVAL, syscall.Errno(133), syscall.Errno(10008)}

// vfrFaultCases: one call per procedure that reaches the backend, on objects that exist (fresh names per i).
func vfrFaultCases(h vfrHandles, i int) []vfrCase {
	n := func(proc uint32, note string, args []byte) vfrCase {
		return vfrCase{Prog: NFS_PROGRAM, Vers: NFS_V3, Proc: proc, Args: args, Class: "good", Note: note, Cred: vfRoot}
	}
	sfx := fmt.Sprintf("q%d", i)
	var zero8 [8]byte
	mode := vfSattr{Mode: u32p(0640)}
	var mnt bytes.Buffer
	xdrEncodeString(&mnt, "/d")
	return []vfrCase{
		n(1, "getattr", vfArgsFH(h.file)), n(2, "setattr mode", vfArgsSetattr(h.file, mode, nil)),
		n(2, "setattr size", vfArgsSetattr(h.file, vfSattr{Size: u64p(uint64(40 + i%7))}, nil)),
		n(3, "lookup", vfArgsDirOp(h.dir, "a")), n(3, "lookup missing", vfArgsDirOp(h.dir, "no"+sfx)), n(4, "access", vfArgsAccess(h.file, 0x3f)),
		n(5, "readlink", vfArgsFH(h.link)), n(6, "read", vfArgsRead(h.file, 0, 20)), n(7, "write", vfArgsWrite(h.file, 3, 2, []byte("fault"))),
		n(8, "create", vfArgsCreate(h.dir, "c"+sfx, 0, mode, zero8)), n(8, "create exclusive", vfArgsCreate(h.dir, "x"+sfx, 2, vfSattr{}, [8]byte{9})),
		n(9, "mkdir", vfArgsMkdir(h.dir, "k"+sfx, mode)), n(10, "symlink", vfArgsSymlink(h.dir, "s"+sfx, vfSattr{}, "a")),
		n(12, "remove", vfArgsDirOp(h.dir, "c"+sfx)), n(13, "rmdir", vfArgsDirOp(h.dir, "k"+sfx)), n(13, "rmdir non-empty", vfArgsDirOp(h.root, "d")),
		n(14, "rename", vfArgsRename(h.dir, "s"+sfx, h.dir, "t"+sfx)), n(14, "rename onto non-empty dir", vfArgsRename(h.root, "e", h.root, "d")),
		n(16, "readdir", vfArgsReaddir(h.dir, 0, zero8, 4096)), n(17, "readdirplus", vfArgsReaddirplus(h.dir, 0, zero8, 4096, 8192)),
		n(18, "fsstat", vfArgsFH(h.root)), n(19, "fsinfo", vfArgsFH(h.root)), n(20, "pathconf", vfArgsFH(h.file)), n(21, "commit", vfArgsCommit(h.file, 0, 0)),
		{Prog: MOUNT_PROGRAM, Vers: 3, Proc: 1, Args: mnt.Bytes(), Class: "good", Note: "mnt /d", Cred: vfRoot},
		{Prog: MOUNT_PROGRAM, Vers: 3, Proc: 1, Args: []byte{0, 0, 0, 1, '/', 0, 0, 0}, Class: "good", Note: "mnt /", Cred: vfRoot},
		{Prog: MOUNT_PROGRAM, Vers: 1, Proc: 1, Args: mnt.Bytes(), Class: "good", Note: "mnt v1 /d", Cred: vfRoot},
		{Prog: MOUNT_PROGRAM, Vers: 3, Proc: 3, Args: mnt.Bytes(), Class: "good", Note: "umnt /d", Cred: vfRoot},
		{Prog: MOUNT_PROGRAM, Vers: 3, Proc: 2, Class: "good", Note: "dump", Cred: vfRoot},
		{Prog: MOUNT_PROGRAM, Vers: 3, Proc: 5, Class: "good", Note: "export", Cred: vfRoot},
	}
}

func TestVF_ReplyShape(t *testing.T) {
	seed := vfSeed()
	sch := vfrLoadSchema(t)
	tr := vfNewTrace(t, "replyshape.ndjson")
	defer tr.Close()
	diff := vfrSchemaDiff(sch)
	rounds := vfEnvInt("VF_ROUNDS", 1)
	stats := map[string]int{}
	statuses := map[string]bool{}
	var samples []M
	emit := func(m M) {
		tr.Emit(m)
		stats[m["state"].(string)+"."+m["args"].(string)]++
		if g, ok := m["go"].(vfrGo); ok && m["rpc"] == "accepted" && m["accept"] == 0 && g.Status >= 0 {
			statuses[fmt.Sprintf("%d.%d:%d", m["prog"], m["proc"], g.Status)] = true
		}
	}
	rlcfg := DefaultRateLimiterConfig()
	rlcfg.ReadLargeOpsPerSecond, rlcfg.WriteLargeOpsPerSecond, rlcfg.ReaddirOpsPerSecond, rlcfg.MountOpsPerMinute = 1, 1, 1, 1
	for round := 0; round < rounds; round++ {
		for _, state := range []string{"normal", "readonly", "ratelimited", "drain"} {
			r := vfRand(seed, fmt.Sprintf("rs-%s-%d", state, round))
			fs := vfNewFS()
			vfrPopulate(fs)
			opts := ExportOptions{}
			switch state {
			case "readonly":
				opts.ReadOnly = true
			case "ratelimited":
				opts.EnableRateLimiting = true
				opts.RateLimitConfig = &rlcfg
			}
			e := vfNewEnv(t, fs, opts)
			h := vfrGetHandles(t, e)
			tr.Emit(M{"ev": "reset", "state": state, "round": round})
			cases := vfrAllCases(r, h, round, state != "drain" || round == 0)
			var release func()
			if state == "drain" {
				release = vfrDrain(t, e, h)
			}
			for i := range cases {
				c := &cases[i]
				if state == "ratelimited" {
					vfrExhaustBuckets(e, "127.0.0.1")
				}
				raw := e.Call(c.Prog, c.Vers, c.Proc, c.Args, c.Cred)
				line := vfrLine(sch, state, "handler", c, raw.Xid, raw.Wire, raw.Err == nil && raw.Reply != nil, raw.Elapsed)
				emit(line)
				if len(samples) < 4 && (c.Class != "good" || state == "drain") && r.Intn(40) == 0 {
					samples = append(samples, line)
				}
			}
			if release != nil {
				release()
			}
			e.Close()
		}
	}

	// ---- a backend that fails: every procedure, the k-th backend operation of the request fails with each errno
	{
		inner := vfNewFS()
		vfrPopulate(inner)
		// objects that make the plain vfs backend itself answer with unusual errnos: symlink loops
		inner.vfPoke("/la", "L", nil, "lb", 0777)
		inner.vfPoke("/lb", "L", nil, "la", 0777)
		ff := &vfrFaultFS{vfsFS: inner}
		e := vfNewEnv(t, ff, ExportOptions{})
		h := vfrGetHandles(t, e)
		loop := vfrLookupHandle(t, e, h.root, "la")
		tr.Emit(M{"ev": "reset", "state": "faulty", "round": 0})
		var zero8 [8]byte
		for _, c := range []vfrCase{
			{Prog: NFS_PROGRAM, Vers: 3, Proc: 6, Args: vfArgsRead(loop, 0, 10), Class: "good", Note: "read through a symlink loop", Cred: vfRoot},
			{Prog: NFS_PROGRAM, Vers: 3, Proc: 7, Args: vfArgsWrite(loop, 0, 2, []byte("z")), Class: "good", Note: "write through a symlink loop", Cred: vfRoot},
			{Prog: NFS_PROGRAM, Vers: 3, Proc: 2, Args: vfArgsSetattr(loop, vfSattr{Size: u64p(1)}, nil), Class: "good", Note: "truncate through a symlink loop", Cred: vfRoot},
			{Prog: NFS_PROGRAM, Vers: 3, Proc: 2, Args: vfArgsSetattr(loop, vfSattr{Mode: u32p(0600)}, nil), Class: "good", Note: "chmod through a symlink loop", Cred: vfRoot},
			{Prog: NFS_PROGRAM, Vers: 3, Proc: 16, Args: vfArgsReaddir(loop, 0, zero8, 4096), Class: "good", Note: "readdir of a symlink loop", Cred: vfRoot},
			{Prog: NFS_PROGRAM, Vers: 3, Proc: 13, Args: vfArgsDirOp(h.root, "la"), Class: "good", Note: "rmdir of a symlink loop", Cred: vfRoot},
			{Prog: NFS_PROGRAM, Vers: 3, Proc: 14, Args: vfArgsRename(h.root, "d", h.dir, "sub"), Class: "good", Note: "rename into own subtree", Cred: vfRoot},
			{Prog: NFS_PROGRAM, Vers: 3, Proc: 14, Args: vfArgsRename(h.root, "e", h.root, "d"), Class: "good", Note: "rename onto a non-empty directory", Cred: vfRoot},
			{Prog: NFS_PROGRAM, Vers: 3, Proc: 12, Args: vfArgsDirOp(h.root, "d"), Class: "good", Note: "remove of a non-empty directory", Cred: vfRoot},
		} {
			c := c
			raw := e.Call(c.Prog, c.Vers, c.Proc, c.Args, c.Cred)
			emit(vfrLine(sch, "faulty", "handler", &c, raw.Xid, raw.Wire, raw.Err == nil && raw.Reply != nil, raw.Elapsed))
		}
		depth := vfEnvInt("VF_FAULT_DEPTH", 3)
		i := 0
		for _, en := range vfrErrnos {
			for k := 1; k <= depth; k++ {
				i++
				for _, c := range vfrFaultCases(h, i) {
					c := c
					// the caches are emptied so that the request needs the backend from its first step on (a MNT or
					// LOOKUP of a cached path would otherwise never reach the failing operation)
					vfrDropCaches(e)
					ff.arm(k, en)
					raw := e.Call(c.Prog, c.Vers, c.Proc, c.Args, c.Cred)
					fired := ff.disarm()
					c.Note = fmt.Sprintf("%s: backend operation %d (%s) fails with errno %d", c.Note, k, fired, int(en))
					line := vfrLine(sch, "faulty", "handler", &c, raw.Xid, raw.Wire, raw.Err == nil && raw.Reply != nil, raw.Elapsed)
					line["fired"] = fired != ""
					emit(line)
					if fired != "" && len(samples) < 6 && i%11 == 0 {
						samples = append(samples, line)
					}
				}
			}
		}
		// operations that run into their deadline: every per-operation timeout of the tuning options at 1 ns
		e.n.UpdateTuningOptions(func(tn *TuningOptions) {
			d := time.Nanosecond
			tn.Timeouts = &TimeoutConfig{ReadTimeout: d, WriteTimeout: d, LookupTimeout: d, ReaddirTimeout: d, CreateTimeout: d,
				RemoveTimeout: d, RenameTimeout: d, HandleTimeout: 30 * time.Second, DefaultTimeout: 30 * time.Second}
		})
		for rep := 0; rep < 3; rep++ {
			i++
			for _, c := range vfrFaultCases(h, i) {
				c := c
				vfrDropCaches(e)
				raw := e.Call(c.Prog, c.Vers, c.Proc, c.Args, c.Cred)
				c.Note += ": every operation timeout is 1 ns"
				line := vfrLine(sch, "faulty", "handler", &c, raw.Xid, raw.Wire, raw.Err == nil && raw.Reply != nil, raw.Elapsed)
				line["fired"] = true
				emit(line)
			}
		}
		e.Close()
	}

	// ---- over real TCP with record marking: XID echo on the wire, the connection loop's own refusal
	for _, state := range []string{"normal", "ratelimited_conn"} {
		r := vfRand(seed, "rs-tcp-"+state)
		fs := vfNewFS()
		vfrPopulate(fs)
		opts := ExportOptions{}
		if state == "ratelimited_conn" {
			cfg := DefaultRateLimiterConfig()
			cfg.PerConnectionRequestsPerSecond, cfg.PerConnectionBurstSize = 1, 8
			opts.EnableRateLimiting = true
			opts.RateLimitConfig = &cfg
		}
		e := vfNewEnv(t, fs, opts)
		h := vfrGetHandles(t, e)
		port := vfrListen(t, e)
		tr.Emit(M{"ev": "reset", "state": state, "round": 0})
		conn := vfrDial(t, port)
		cases := vfrAllCases(r, h, 100, false)
		xid := uint32(0x7000000) + uint32(r.Intn(1<<20))
		for i := range cases {
			c := &cases[i]
			if c.Class == "badcred" && c.Cred.Raw != nil && len(c.Cred.Raw) > 400 {
				continue
			}
			xid += 1 + uint32(r.Intn(5))
			if i%17 == 0 {
				xid = 0xfffffff0 + uint32(i%13) // XIDs with the top bit set
			}
			_, cred := c.Cred.authCtx()
			msg := vfrCallBytes(xid, c.Prog, c.Vers, c.Proc, cred.Flavor, cred.Body, c.Args)
			t0 := time.Now()
			if err := conn.SendRecord(msg); err != nil {
				conn.Close()
				conn = vfrDial(t, port)
				if err := conn.SendRecord(msg); err != nil {
					t.Fatalf("send: %v", err)
				}
			}
			rep, err := conn.ReadRecord(10 * time.Second)
			st := state
			if state == "ratelimited_conn" {
				st = "ratelimited"
			}
			line := vfrLine(sch, st, "tcp", c, xid, rep, err == nil, time.Since(t0))
			emit(line)
			if err != nil { // the server closed the connection (for instance after a timeout): start a new one
				conn.Close()
				conn = vfrDial(t, port)
			}
		}
		conn.Close()
		e.srv.Stop()
		e.Close()
	}
	sts := []string{}
	for k := range statuses {
		sts = append(sts, k)
	}
	sort.Strings(sts)
	vfWriteJSON(t, "replyshape.summary.json", M{"lines": tr.n, "by_state_class": stats, "distinct_proc_status": len(sts), "proc_status": sts,
		"schema_diff": diff, "samples": samples})
}

package absnfs

// vf_handles.go: drivers for C05 / C06 (specs/Handles).
//   TestVF_HandlesAPI : seeded histories at the FileHandleMap API, full projected state per step
//   TestVF_HandlesNFS : the handlers under a small handle limit, a client that keeps every
//                       handle value it ever received and keeps using them

import (
	"hash/fnv"
	"os"
	"path"
	"sort"
	"testing"
	"time"

	"github.com/absfs/absfs"
)

type vfHE struct {
	I uint64 `json:"i"`
	P string `json:"p"`
}

// vfHandleState projects the table (in-package read).
func vfHandleState(fm *FileHandleMap) (tab []vfHE, byp []vfHE, free []uint64, next uint64) {
	fm.RLock()
	defer fm.RUnlock()
	tab, byp, free = []vfHE{}, []vfHE{}, []uint64{}
	for id, f := range fm.handles {
		p := "?"
		if n, ok := f.(*NFSNode); ok {
			p = n.path
		}
		tab = append(tab, vfHE{id, p})
	}
	sort.Slice(tab, func(i, j int) bool { return tab[i].I < tab[j].I })
	for p, id := range fm.pathHandles {
		byp = append(byp, vfHE{id, p})
	}
	sort.Slice(byp, func(i, j int) bool { return byp[i].P < byp[j].P })
	if fm.freeHandles != nil {
		for _, v := range *fm.freeHandles {
			free = append(free, v)
		}
	}
	sort.Slice(free, func(i, j int) bool { return free[i] < free[j] })
	return tab, byp, free, fm.nextHandle
}

func vfEmitHS(tr *vfTrace, fm *FileHandleMap, m M) {
	tab, byp, free, next := vfHandleState(fm)
	m["tab"], m["byp"], m["free"], m["next"] = tab, byp, free, next
	tr.Emit(m)
}

func TestVF_HandlesAPI(t *testing.T) {
	seed := vfSeed()
	nh := vfEnvInt("VF_HIST", 150)
	steps := vfEnvInt("VF_STEPS", 40)
	tr := vfNewTrace(t, "handles_api.ndjson")
	defer tr.Close()
	limits := []int{1, 2, 3, 5, 10, 20, 25}
	nontrivial := 0
	var samples []M
	for h := 0; h < nh; h++ {
		r := vfRand(seed, "hapi"+string(rune(h)))
		maxh := limits[h%len(limits)]
		npaths := maxh + 1 + r.Intn(maxh+3)
		fm := &FileHandleMap{handles: make(map[uint64]absfs.File), pathHandles: make(map[string]uint64),
			nextHandle: 1, freeHandles: NewUint64MinHeap(), maxHandles: maxh}
		tr.Emit(M{"ev": "reset", "maxh": maxh, "hist": h, "next": 1})
		evicted, reused := false, false
		var ops []M
		for s := 0; s < steps; s++ {
			x := r.Intn(100)
			switch {
			case x < 84:
				p := "/p" + string(rune('a'+r.Intn(npaths)%26)) + string(rune('0'+r.Intn(npaths)/26))
				_, _, freeBefore, _ := vfHandleState(fm)
				before := fm.Count()
				id := fm.Allocate(&NFSNode{path: p})
				if fm.Count() < before+1 && before >= maxh {
					evicted = true
				}
				for _, f := range freeBefore {
					if f == id {
						reused = true
					}
				}
				m := M{"ev": "api", "op": "alloc", "p": p, "id": id, "pfree": freeBefore}
				if h < 2 {
					ops = append(ops, M{"op": "alloc", "p": p, "id": id})
				}
				vfEmitHS(tr, fm, m)
			case x < 94:
				tab, _, _, _ := vfHandleState(fm)
				var id uint64 = uint64(r.Intn(8) + 1)
				if len(tab) > 0 && r.Intn(4) > 0 {
					id = tab[r.Intn(len(tab))].I
				}
				fm.Release(id)
				if h < 2 {
					ops = append(ops, M{"op": "release", "id": id})
				}
				vfEmitHS(tr, fm, M{"ev": "api", "op": "release", "p": "", "id": id})
			default:
				fm.ReleaseAll()
				if h < 2 {
					ops = append(ops, M{"op": "releaseall"})
				}
				vfEmitHS(tr, fm, M{"ev": "api", "op": "releaseall", "p": "", "id": 0})
			}
		}
		if evicted && reused {
			nontrivial++
		}
		if h < 2 {
			samples = append(samples, M{"maxh": maxh, "ops": ops})
		}
	}
	vfWriteJSON(t, "handles_api.summary.json", M{"histories": nh, "steps": steps, "nontrivial": nontrivial, "lines": tr.n, "samples": samples})
}

func vfPathHash(p string) uint64 {
	h := fnv.New64a()
	h.Write([]byte(p))
	return h.Sum64()
}

// TestVF_HandlesNFS drives the real handlers with a small handle limit.
func TestVF_HandlesNFS(t *testing.T) {
	seed := vfSeed()
	nh := vfEnvInt("VF_HIST", 40)
	steps := vfEnvInt("VF_STEPS", 40)
	tr := vfNewTrace(t, "handles_nfs.ndjson")
	defer tr.Close()
	limits := []int{2, 3, 4, 6, 12, 20}
	nontrivial := 0
	var samples []M
	for h := 0; h < nh; h++ {
		r := vfRand(seed, "hnfs"+string(rune(h)))
		maxh := limits[h%len(limits)]
		fs := vfNewFS()
		known := map[uint64]string{vfPathHash("/"): "/"}
		add := func(p string) { known[vfPathHash(p)] = p }
		dirs := []string{"/"}
		for d := 0; d < 3; d++ {
			dp := "/d" + string(rune('0'+d))
			fs.vfPoke(dp, "D", nil, "", 0755)
			add(dp)
			dirs = append(dirs, dp)
			for f := 0; f < 3; f++ {
				fp := dp + "/f" + string(rune('0'+f))
				fs.vfPoke(fp, "F", []byte("x"), "", 0644)
				add(fp)
			}
			fs.vfPoke(dp+"/l", "L", nil, "f0", 0777)
			add(dp + "/l")
		}
		fs.vfPoke("/top", "F", []byte("t"), "", 0644)
		add("/top")
		env := vfNewEnv(t, fs, ExportOptions{AttrCacheTimeout: time.Nanosecond, MaxWorkers: 2})
		env.n.fileMap.maxHandles = maxh
		fm := env.n.fileMap
		tr.Emit(M{"ev": "reset", "maxh": maxh, "hist": h, "next": 1})
		var held []uint64 // every handle value the client ever received
		heldSet := map[uint64]bool{}
		hold := func(id uint64) {
			if !heldSet[id] {
				heldSet[id] = true
				held = append(held, id)
			}
		}
		var ops []M
		staleSeen, reusedSeen := false, false
		// use issues GETATTR on id and logs the outcome
		use := func(id uint64, imm bool) {
			fs.TakeCalls()
			rep := env.Do(NFSPROC3_GETATTR, vfArgsFH(id), vfRoot)
			served := ""
			for _, c := range fs.TakeCalls() {
				if c.Op == "Lstat" {
					served = c.Path
				}
			}
			st := rep.StatusName()
			if st == "STALE" {
				staleSeen = true
			}
			vfEmitHS(tr, fm, M{"ev": "use", "proc": "GETATTR", "id": id, "status": st, "served": served, "imm": imm})
		}
		reqNo := 0
		var freeBefore []uint64
		var liveBefore []uint64
		begin := func() { // call before every request that may issue handles
			reqNo++
			tab, _, fr, _ := vfHandleState(fm)
			freeBefore = fr
			liveBefore = []uint64{}
			for _, e := range tab {
				liveBefore = append(liveBefore, e.I)
			}
		}
		emitIssue := func(proc string, p string, id uint64) {
			vfEmitHS(tr, fm, M{"ev": "issue", "proc": proc, "p": p, "id": id, "req": reqNo, "pfree": freeBefore, "plive": liveBefore})
			if h < 1 {
				ops = append(ops, M{"proc": proc, "p": p, "id": id})
			}
			hold(id)
		}
		issue := func(proc string, p string, id uint64) {
			emitIssue(proc, p, id)
			use(id, true)
		}
		// madeAt: the path of the last successful backend call that makes an object called name
		madeAt := func(name string) string {
			p := ""
			for _, c := range fs.TakeCalls() {
				if c.Err != "" || path.Base(c.Path) != name {
					continue
				}
				if c.Op == "Mkdir" || c.Op == "Symlink" || (c.Op == "OpenFile" && c.Flags&os.O_CREATE != 0) {
					p = path.Clean("/" + c.Path)
				}
			}
			return p
		}
		pathOfObj := func(res *vfResult, key string) string {
			fid := vfU(vfGet(res.Val, key, "fileid"))
			return known[fid]
		}
		begin()
		root := env.Mount(t, vfRoot)
		issue("MNT", "/", root)
		created := 0
		for s := 0; s < steps; s++ {
			dirH := held[r.Intn(len(held))]
			x := r.Intn(100)
			begin()
			noteReuse := func(id uint64) {
				for _, f := range freeBefore {
					if f == id {
						reusedSeen = true
					}
				}
			}
			switch {
			case x < 40: // LOOKUP
				names := []string{"d0", "d1", "d2", "f0", "f1", "f2", "l", "top", "n0", "n1"}
				name := names[r.Intn(len(names))]
				rep := env.Do(NFSPROC3_LOOKUP, vfArgsDirOp(dirH, name), vfRoot)
				if rep.OK() {
					id, _ := vfFH(vfGet(rep.Res.Val, "object"))
					if p := pathOfObj(rep.Res, "obj"); p != "" {
						noteReuse(id)
						issue("LOOKUP", p, id)
					}
				}
			case x < 55: // READDIRPLUS
				fs.TakeCalls()
				rep := env.Do(NFSPROC3_READDIRPLUS, vfArgsReaddirplus(dirH, 0, [8]byte{}, 4096, 32768), vfRoot)
				dpath := ""
				for _, c := range fs.TakeCalls() {
					if c.Op == "Lstat" && dpath == "" {
						// GetAttr(dir) is the last Lstat of the handler; the first OpenFile names it too
					}
					if c.Op == "OpenFile" && dpath == "" {
						dpath = c.Path
					}
				}
				if rep.OK() && dpath != "" {
					ents, _ := vfGet(rep.Res.Val, "entries").([]interface{})
					// all handles of one reply are issued by one request: log them, then use them
					type iss struct {
						p  string
						id uint64
					}
					var got []iss
					for _, e := range ents {
						em := e.(M)
						if id, ok := vfFH(em["fh"]); ok {
							got = append(got, iss{path.Join(dpath, em["name"].(string)), id})
						}
					}
					// only the last entry's handle is "immediately following" in the strict sense;
					// the property covers every handle of the reply, so each is used right away
					for _, g := range got {
						noteReuse(g.id)
						emitIssue("READDIRPLUS", g.p, g.id)
					}
					for _, g := range got {
						use(g.id, false)
					}
				}
			case x < 70: // CREATE / MKDIR / SYMLINK of a fresh name
				created++
				name := "n" + string(rune('0'+created%10)) + string(rune('a'+created/10%26))
				var rep *vfNFSReply
				var proc string
				fs.TakeCalls()
				switch r.Intn(3) {
				case 0:
					proc = "CREATE"
					rep = env.Do(NFSPROC3_CREATE, vfArgsCreate(dirH, name, 0, vfSattr{Mode: u32p(0644)}, [8]byte{}), vfRoot)
				case 1:
					proc = "MKDIR"
					rep = env.Do(NFSPROC3_MKDIR, vfArgsMkdir(dirH, name, vfSattr{Mode: u32p(0755)}), vfRoot)
				default:
					proc = "SYMLINK"
					rep = env.Do(NFSPROC3_SYMLINK, vfArgsSymlink(dirH, name, vfSattr{}, "f0"), vfRoot)
				}
				if rep.OK() {
					id, ok := vfFH(vfGet(rep.Res.Val, "object"))
					// the new object's path: where the backend was told to make it (the same name
					// may exist in another directory)
					p := madeAt(name)
					if ok && p != "" {
						add(p)
						noteReuse(id)
						issue(proc, p, id)
					}
				}
			case x < 73 && created > 0: // a name is removed and made again as another kind of object
				name := "n" + string(rune('0'+created%10)) + string(rune('a'+created/10%26))
				env.Do(NFSPROC3_REMOVE, vfArgsDirOp(dirH, name), vfRoot)
				env.Do(NFSPROC3_RMDIR, vfArgsDirOp(dirH, name), vfRoot)
				var rep *vfNFSReply
				proc := "MKDIR"
				fs.TakeCalls()
				if r.Intn(2) == 0 {
					rep = env.Do(NFSPROC3_MKDIR, vfArgsMkdir(dirH, name, vfSattr{Mode: u32p(0755)}), vfRoot)
				} else {
					proc = "CREATE"
					rep = env.Do(NFSPROC3_CREATE, vfArgsCreate(dirH, name, 0, vfSattr{Mode: u32p(0644)}, [8]byte{}), vfRoot)
				}
				if rep.OK() {
					id, ok := vfFH(vfGet(rep.Res.Val, "object"))
					p := madeAt(name)
					if ok && p != "" {
						add(p)
						noteReuse(id)
						issue(proc, p, id)
					}
				}
			case x < 74: // MNT again
				id := env.Mount(t, vfRoot)
				noteReuse(id)
				issue("MNT", "/", id)
			case x < 77: // MNT of a directory of the export, spelled in one of several equivalent ways
				d := "d" + string(rune('0'+r.Intn(3)))
				spell := []string{"/" + d, "/" + d + "/", "//" + d, "/./" + d, "/" + d + "/.", "/d0/../" + d}[r.Intn(6)]
				if id, ok := env.MountPath(spell, vfRoot); ok {
					noteReuse(id)
					issue("MNT", "/"+d, id) // whatever the spelling, the handle names the directory /dN
				}
			default: // use an old handle value
				use(held[r.Intn(len(held))], false)
			}
		}
		if staleSeen && reusedSeen {
			nontrivial++
		}
		if h < 1 {
			samples = append(samples, M{"maxh": maxh, "issues": ops})
		}
		// Unexport keeps the object: every held value must be STALE afterwards, and a
		// re-export on the same object must not rebind old values
		env.n.Unexport()
		vfEmitHS(tr, fm, M{"ev": "api", "op": "unexport", "p": "", "id": 0})
		for i := 0; i < 3 && i < len(held); i++ {
			use(held[r.Intn(len(held))], false)
		}
		begin()
		id := env.Mount(t, vfRoot)
		issue("MNT", "/", id)
		env.Close()
	}
	_ = os.ModeDir
	vfWriteJSON(t, "handles_nfs.summary.json", M{"histories": nh, "steps": steps, "nontrivial": nontrivial, "lines": tr.n, "samples": samples})
}

package absnfs

// vf_pipeline.go: driver of the end-to-end specification specs/Pipeline (bin/check PIPELINE).
//
//   TestVF_Pipeline : per history a REAL server (New over the vfs backend with a tiny rate-limit
//   configuration, MaxConnections 2, worker pool on; Server.Listen with UseRecordMarking on a loopback port)
//   and real TCP clients dialled from 127.0.0.1 / 127.0.0.2 / 127.0.0.3 / ::1, from privileged and
//   unprivileged source ports.  The histories are seeded mixes of every class of call (NULL, read-type,
//   mutating, large READ / WRITE, READDIR(PLUS), MNT, unknown program / version / procedure, undecodable
//   records; AUTH_NONE / AUTH_SYS / unsupported or undecodable credentials; one or two fragments; pipelined),
//   policy updates at run time, clock ticks (virtual clock of rate_limiter.go), worker pool stop, idle
//   reaping and Server.Stop: sequential histories (one step at a time) and concurrent ones (clients and an
//   updater running freely, with seeded delays in the backend).
//
//   One ndjson line per step.  A call line carries: connection, xid, program / version / procedure, the
//   credential class, the reply form (none / MSG_DENIED / accept_stat / status + whether the result decodes
//   exactly as the result type of the procedure), how many reply records carried its xid and where they came
//   in the reply stream of the connection, the backend calls made on its behalf (attributed through the
//   goroutine that fired hc.release; vfs.Tag = goroutine id and live policy version), the vhook events
//   observed for its xid (hc.admit with the admitted policy version, hc.jukebox, hc.release), whether
//   HandleCall ran on a worker or inline, invocation / response stamps, and the projected state after the
//   step (live policy version, connCount, bucket contents).  The harness records; PipelineTrace.tla judges.

import (
	"bytes"
	"encoding/binary"
	"fmt"
	"io"
	"log"
	"math/rand"
	"net"
	"os"
	"runtime"
	"sort"
	"strconv"
	"strings"
	"sync"
	"sync/atomic"
	"syscall"
	"testing"
	"time"
)

const vfplLabelBase = int64(3000000000) // MaxFileSize of policy version k is base + k

type vfplHookEv struct {
	name string
	lab  int
	goid int64
	seq  int64
}

type vfplCmEv struct {
	key   string
	ev    string
	count int
	max   int
	seq   int64
}

type vfplReplyRec struct {
	xid  uint32
	wire []byte
	seq  int64
}

// vfplConn is one client connection with a reader goroutine that collects every reply record.
type vfplConn struct {
	c            int
	addr         string
	low          bool
	key          string // remote address as the server sees it ("ip:port")
	conn         net.Conn
	mu           sync.Mutex
	replies      []vfplReplyRec
	closed       bool // the reader saw the end of the stream
	sent         []uint32
	clientClosed bool
	served       bool
}

type vfplPol struct {
	Lab     int      `json:"lab"`
	Allowed []string `json:"allowed"`
	Secure  bool     `json:"secure"`
	RO      bool     `json:"ro"`
	RL      bool     `json:"rl"`
}

type vfplCfg struct {
	Kind    string
	Mode    string // "seq" | "conc"
	MaxConn int
	BC, BI  int // per-connection / per-address burst
	BG      int // global bucket
	IdleMs  int
	Pol0    vfplPol
}

type vfplCall struct {
	step    M
	c       int
	xid     uint32
	cl      *vfplConn
	schema  string // result type name, "" = void, "-" = none known
	status  bool   // result starts with a status word
	garbage bool
}

type vfplWorld struct {
	t       *testing.T
	mu      sync.Mutex
	seq     int64
	fs      *vfsFS
	n       *AbsfsNFS
	srv     *Server
	port    int
	v6      bool
	root    uint64
	fhF     uint64
	fhBig   uint64
	fhD     uint64
	hc      map[uint32][]vfplHookEv
	relGo   map[int64]uint32
	connGo  map[int64]string
	cm      map[string][]vfplCmEv
	cmAll   []vfplCmEv
	up      []string
	sv      []string
	conns   map[int]*vfplConn
	steps   []M
	calls   []*vfplCall
	cfg     vfplCfg
	lab     int // label of the policy installed last
	xid     uint32
	names   int
	slow    int64 // conc: upper bound (microseconds) of the seeded delay before a backend operation
	srnd    *rand.Rand
	smu     sync.Mutex
	stopped bool
	opB     map[string]int
}

var vfplCur atomic.Pointer[vfplWorld]
var vfplLowPort atomic.Int32

func vfplGoid() int64 {
	var b [64]byte
	n := runtime.Stack(b[:], false)
	s := strings.TrimPrefix(string(b[:n]), "goroutine ")
	if i := strings.IndexByte(s, ' '); i > 0 {
		id, _ := strconv.ParseInt(s[:i], 10, 64)
		return id
	}
	return -1
}

func (w *vfplWorld) stamp() int64 {
	w.mu.Lock()
	defer w.mu.Unlock()
	w.seq++
	return w.seq
}

func vfplConnKey(v interface{}) string {
	if c, ok := v.(net.Conn); ok && c != nil && c.RemoteAddr() != nil {
		return c.RemoteAddr().String()
	}
	return ""
}

// vfplHook receives every vhook event of the package while a history runs.
func vfplHook(ev string, kv ...any) {
	w := vfplCur.Load()
	if w == nil {
		return
	}
	arg := func(k string) interface{} {
		for i := 0; i+1 < len(kv); i += 2 {
			if kv[i] == k {
				return kv[i+1]
			}
		}
		return nil
	}
	g := vfplGoid()
	w.mu.Lock()
	defer w.mu.Unlock()
	w.seq++
	switch ev {
	case "hc.admit", "hc.jukebox", "hc.release":
		xid, _ := arg("xid").(uint32)
		e := vfplHookEv{name: ev, lab: -1, goid: g, seq: w.seq}
		switch ev {
		case "hc.admit":
			if p, ok := arg("pol").(*PolicyOptions); ok && p != nil {
				e.lab = int(p.MaxFileSize - vfplLabelBase)
			}
		case "hc.release":
			why, _ := arg("why").(string)
			e.name = ev + "." + why
			if why == "done" {
				w.relGo[g] = xid
			}
		}
		w.hc[xid] = append(w.hc[xid], e)
	case "cm.accept", "cm.reject", "cm.unreg", "cm.reap":
		k := vfplConnKey(arg("conn"))
		cnt, _ := arg("count").(int)
		mx, _ := arg("max").(int)
		w.cm[k] = append(w.cm[k], vfplCmEv{ev: ev, count: cnt, max: mx, seq: w.seq})
		w.cmAll = append(w.cmAll, vfplCmEv{ev: ev, count: cnt, max: mx, seq: w.seq, key: k})
	case "cl.start":
		w.connGo[g] = vfplConnKey(arg("conn"))
	case "up.begin", "up.reject", "up.drained", "up.swapped", "up.limiter", "up.released":
		w.up = append(w.up, ev)
	case "sv.stop.cancel", "sv.stop.closed", "sv.stop.returned":
		w.sv = append(w.sv, ev)
	}
}

// tagFn runs inside every backend operation: goroutine id and live policy version.
func (w *vfplWorld) tagFn() int64 {
	lab := w.n.policy.Load().MaxFileSize - vfplLabelBase
	return vfplGoid()<<4 | (lab & 15)
}

func (w *vfplWorld) gateFn(op, p string) {
	if w.slow <= 0 {
		return
	}
	w.smu.Lock()
	d := w.srnd.Int63n(w.slow + 1)
	y := w.srnd.Intn(3)
	w.smu.Unlock()
	if d > w.slow/2 {
		time.Sleep(time.Duration(d) * time.Microsecond)
	}
	for ; y > 0; y-- {
		runtime.Gosched()
	}
}

func vfplMutating(op string, flags int) bool {
	switch op {
	case "Mkdir", "Remove", "Rename", "Chmod", "Chown", "Lchown", "Chtimes", "Truncate", "FTruncate", "Symlink", "WriteAt", "RemoveAll":
		return true
	case "OpenFile":
		return flags&(os.O_WRONLY|os.O_RDWR|os.O_CREATE|os.O_TRUNC|os.O_APPEND) != 0
	}
	return false
}

func (p vfplPol) options(cfg vfplCfg) PolicyOptions {
	rc := &RateLimiterConfig{GlobalRequestsPerSecond: cfg.BG, PerIPRequestsPerSecond: 1, PerIPBurstSize: cfg.BI,
		PerConnectionRequestsPerSecond: 1, PerConnectionBurstSize: cfg.BC, ReadLargeOpsPerSecond: 1, WriteLargeOpsPerSecond: 1,
		ReaddirOpsPerSecond: 1, MountOpsPerMinute: 60, FileHandlesPerIP: 100000, FileHandlesGlobal: 1000000, CleanupInterval: 1000 * time.Hour}
	return PolicyOptions{ReadOnly: p.RO, Secure: p.Secure, AllowedIPs: append([]string{}, p.Allowed...), Squash: "none",
		MaxFileSize: vfplLabelBase + int64(p.Lab), EnableRateLimiting: p.RL, RateLimitConfig: rc}
}

// vfplClockCheck makes sure rate_limiter.go was compiled against the virtual clock (exit 2 otherwise).
func vfplClockCheck(t *testing.T) {
	tb := NewTokenBucket(1000, 1)
	tb.Allow()
	time.Sleep(5 * time.Millisecond)
	if tb.Allow() {
		t.Fatalf("VF-CLOCK-ABSENT: rate_limiter.go is not compiled against the virtual clock (build with clock_files)")
	}
	if vfHookProbe() == 0 {
		t.Fatalf("VF-HOOKS-ABSENT: vhook call sites are not compiled in (build tag verif)")
	}
}

// vfHookProbe counts hook events of one direct HandleCall (0: the call sites are absent).
func vfHookProbe() int {
	n := 0
	fn := func(ev string, kv ...any) { n++ }
	vfHookP.Store(&fn)
	defer vfHookP.Store(nil)
	fs := vfNewFS()
	a, err := New(fs, ExportOptions{Squash: "none"})
	if err != nil {
		return 0
	}
	defer a.Close()
	a.logger = log.New(io.Discard, "", 0)
	srv, _ := NewServer(ServerOptions{Name: "vf", Hostname: "127.0.0.1"})
	srv.logger = log.New(io.Discard, "", 0)
	srv.SetHandler(a)
	e := &vfEnv{n: a, srv: srv, h: &NFSProcedureHandler{server: srv}, fs: fs, log: &bytes.Buffer{}, xid: 10}
	e.Call(NFS_PROGRAM, NFS_V3, 0, nil, vfRoot)
	return n
}

func vfplNewWorld(t *testing.T, cfg vfplCfg, seed int64) *vfplWorld {
	w := &vfplWorld{t: t, cfg: cfg, hc: map[uint32][]vfplHookEv{}, relGo: map[int64]uint32{}, connGo: map[int64]string{},
		cm: map[string][]vfplCmEv{}, conns: map[int]*vfplConn{}, xid: 1000, srnd: rand.New(rand.NewSource(seed)), opB: map[string]int{}}
	w.fs = vfNewFS()
	w.fs.vfPoke("/f", "F", []byte("0123456789"), "", 0666)
	w.fs.vfPoke("/big", "F", bytes.Repeat([]byte("b"), 200*1024), "", 0666)
	w.fs.vfPoke("/d", "D", nil, "", 0777)
	w.fs.vfPoke("/d/e1", "F", []byte("1"), "", 0644)
	w.fs.vfPoke("/d/e2", "F", []byte("2"), "", 0644)
	for i := 1; i <= 12; i++ {
		w.fs.vfPoke(fmt.Sprintf("/v%d", i), "F", []byte("v"), "", 0666)
		w.fs.vfPoke(fmt.Sprintf("/rd%d", i), "D", nil, "", 0777)
	}
	idle := time.Hour
	if cfg.IdleMs > 0 {
		idle = time.Duration(cfg.IdleMs) * time.Millisecond
	}
	n, err := New(w.fs, ExportOptions{Squash: "none", MaxConnections: cfg.MaxConn, MaxWorkers: 2, IdleTimeout: idle,
		MaxFileSize: vfplLabelBase - 1})
	if err != nil {
		t.Fatalf("New: %v", err)
	}
	n.logger = log.New(io.Discard, "", 0)
	w.n = n
	host := "[::]"
	srv, err := NewServer(ServerOptions{Name: "vf", Hostname: host, Port: 0, UseRecordMarking: true})
	if err != nil {
		t.Fatalf("NewServer: %v", err)
	}
	srv.logger = log.New(io.Discard, "", 0)
	srv.SetHandler(n)
	// handles, through HandleCall directly, from an address no history uses, before policy 0 is installed
	e := &vfEnv{n: n, srv: srv, h: &NFSProcedureHandler{server: srv}, fs: w.fs, log: &bytes.Buffer{}, xid: 100}
	setup := vfCred{Flavor: AUTH_SYS, UID: 0, GID: 0, IP: "10.99.99.99", Port: 700}
	w.root = e.Mount(t, setup)
	look := func(name string) uint64 {
		r := e.Do(NFSPROC3_LOOKUP, vfArgsDirOp(w.root, name), setup)
		if !r.OK() {
			t.Fatalf("setup LOOKUP %s: %s", name, r.StatusName())
		}
		fh, ok := vfFH(vfGet(r.Res.Val, "object"))
		if !ok {
			t.Fatalf("setup LOOKUP %s: no handle", name)
		}
		return fh
	}
	w.fhF, w.fhBig, w.fhD = look("f"), look("big"), look("d")
	if err := n.UpdatePolicyOptions(cfg.Pol0.options(cfg)); err != nil {
		t.Fatalf("install policy 0: %v", err)
	}
	if rl := n.rateLimiter.Load(); rl != nil {
		for ot, b := range rl.perOperationLimiter.bursts {
			w.opB[string(ot)] = b
		}
	} else {
		for ot, b := range NewPerOperationLimiter(DefaultRateLimiterConfig()).bursts {
			w.opB[string(ot)] = b
		}
	}
	if err := srv.Listen(); err != nil {
		// no IPv6 wildcard: IPv4 loopback only
		srv, _ = NewServer(ServerOptions{Name: "vf", Hostname: "127.0.0.1", Port: 0, UseRecordMarking: true})
		srv.logger = log.New(io.Discard, "", 0)
		srv.SetHandler(n)
		if err := srv.Listen(); err != nil {
			t.Fatalf("Listen: %v", err)
		}
	} else {
		w.v6 = true
	}
	w.srv = srv
	w.port = srv.GetPort()
	w.fs.TakeCalls()
	w.fs.Tag = w.tagFn
	w.fs.Gate = w.gateFn
	vfplCur.Store(w)
	return w
}

// ---------------------------------------------------------------- client side

func vfplReuse(network, address string, c syscall.RawConn) error {
	return c.Control(func(fd uintptr) { syscall.SetsockoptInt(int(fd), syscall.SOL_SOCKET, syscall.SO_REUSEADDR, 1) })
}

func (w *vfplWorld) dial(c int, addr string, low bool) *vfplConn {
	ip := net.ParseIP(addr)
	target := fmt.Sprintf("127.0.0.1:%d", w.port)
	if ip.To4() == nil {
		target = fmt.Sprintf("[::1]:%d", w.port)
	}
	var lastErr error
	for try := 0; try < 80; try++ {
		la := &net.TCPAddr{IP: ip}
		if low {
			la.Port = 600 + int(vfplLowPort.Add(1))%400
		} else if try == 0 && c%3 == 0 {
			la.Port = 1024 // the first unprivileged port
		}
		d := net.Dialer{LocalAddr: la, Timeout: 3 * time.Second, Control: vfplReuse}
		conn, err := d.Dial("tcp", target)
		if err != nil {
			lastErr = err
			if low || try == 0 {
				continue
			}
			break
		}
		cl := &vfplConn{c: c, addr: addr, low: low, conn: conn, key: conn.LocalAddr().String()}
		go cl.reader(w)
		return cl
	}
	w.t.Fatalf("dial from %s (low=%v): %v", addr, low, lastErr)
	return nil
}

func (cl *vfplConn) reader(w *vfplWorld) {
	for {
		var whole []byte
		for {
			var h [4]byte
			if _, err := io.ReadFull(cl.conn, h[:]); err != nil {
				cl.mu.Lock()
				cl.closed = true
				cl.mu.Unlock()
				return
			}
			v := binary.BigEndian.Uint32(h[:])
			n := int(v &^ LastFragmentFlag)
			if n > 8<<20 {
				cl.mu.Lock()
				cl.closed = true
				cl.mu.Unlock()
				return
			}
			frag := make([]byte, n)
			if _, err := io.ReadFull(cl.conn, frag); err != nil {
				cl.mu.Lock()
				cl.closed = true
				cl.mu.Unlock()
				return
			}
			whole = append(whole, frag...)
			if v&LastFragmentFlag != 0 {
				break
			}
		}
		var xid uint32
		if len(whole) >= 4 {
			xid = binary.BigEndian.Uint32(whole[:4])
		}
		s := w.stamp()
		cl.mu.Lock()
		cl.replies = append(cl.replies, vfplReplyRec{xid: xid, wire: whole, seq: s})
		cl.mu.Unlock()
	}
}

func vfplWait(d time.Duration, cond func() bool) bool {
	end := time.Now().Add(d)
	for i := 0; ; i++ {
		if cond() {
			return true
		}
		if time.Now().After(end) {
			return false
		}
		if i < 50 {
			runtime.Gosched()
			time.Sleep(20 * time.Microsecond)
		} else {
			time.Sleep(300 * time.Microsecond)
		}
	}
}

func (cl *vfplConn) isClosed() bool {
	cl.mu.Lock()
	defer cl.mu.Unlock()
	return cl.closed
}

func (cl *vfplConn) replyOf(xid uint32) (int, bool) {
	cl.mu.Lock()
	defer cl.mu.Unlock()
	for i, r := range cl.replies {
		if r.xid == xid {
			return i, true
		}
	}
	return -1, false
}

func (w *vfplWorld) cmHas(key, ev string) (vfplCmEv, bool) {
	w.mu.Lock()
	defer w.mu.Unlock()
	for _, e := range w.cm[key] {
		if e.ev == ev {
			return e, true
		}
	}
	return vfplCmEv{}, false
}

func (w *vfplWorld) post(m M) M {
	m["lab"] = int(w.n.policy.Load().MaxFileSize - vfplLabelBase)
	w.srv.connMutex.Lock()
	m["cnt"] = w.srv.connCount
	w.srv.connMutex.Unlock()
	return m
}

func (w *vfplWorld) addStep(m M) {
	w.mu.Lock()
	w.steps = append(w.steps, m)
	w.mu.Unlock()
}

// ---------------------------------------------------------------- steps

func (w *vfplWorld) doOpen(c int, addr string, low bool) {
	inv := w.stamp()
	cl := w.dial(c, addr, low)
	w.mu.Lock()
	w.conns[c] = cl
	w.mu.Unlock()
	var acc, rej vfplCmEv
	var okA, okR bool
	vfplWait(3*time.Second, func() bool {
		acc, okA = w.cmHas(cl.key, "cm.accept")
		rej, okR = w.cmHas(cl.key, "cm.reject")
		return okA || okR || cl.isClosed()
	})
	cnt, mx := -1, -1
	if okA {
		cnt, mx = acc.count, acc.max
		cl.served = true
	} else if okR {
		cnt, mx = rej.count, rej.max
	}
	if okR || (!okA && !okR) {
		vfplWait(2*time.Second, cl.isClosed)
	}
	w.addStep(w.post(M{"ev": "open", "c": c, "addr": addr, "low": low, "inv": inv, "res": w.stamp(), "accepted": okA, "rejected": okR,
		"closed": cl.isClosed(), "count": cnt, "max": mx}))
}

type vfplSpec struct {
	Kind  string
	Flav  string // NONE | SYS | SYSU | BAD | BADSYS
	Frags int
}

func (w *vfplWorld) nextName(p string) string {
	w.mu.Lock()
	defer w.mu.Unlock()
	w.names++
	return fmt.Sprintf("%s%d", p, w.names)
}

func (w *vfplWorld) victim(p string) string {
	w.mu.Lock()
	defer w.mu.Unlock()
	w.names++
	return fmt.Sprintf("%s%d", p, 1+w.names%12)
}

// build returns the header numbers, arguments and the name of the result type of a call kind.
func (w *vfplWorld) build(kind string) (prog, vers, proc uint32, args []byte, large bool, schema string, status bool) {
	mode := vfSattr{Mode: u32p(0644)}
	var verf [8]byte
	nfs := func(p uint32, a []byte) (uint32, uint32, uint32, []byte, bool, string, bool) {
		return NFS_PROGRAM, NFS_V3, p, a, false, "NFS3." + vfNFSProcNames[p], p != 0
	}
	str := func(s string) []byte {
		var b bytes.Buffer
		xdrEncodeString(&b, s)
		return b.Bytes()
	}
	switch kind {
	case "null":
		return NFS_PROGRAM, NFS_V3, 0, nil, false, "", false
	case "getattr":
		return nfs(NFSPROC3_GETATTR, vfArgsFH(w.fhF))
	case "lookup":
		return nfs(NFSPROC3_LOOKUP, vfArgsDirOp(w.root, "f"))
	case "access":
		return nfs(NFSPROC3_ACCESS, vfArgsAccess(w.fhF, 0x3f))
	case "read":
		return nfs(NFSPROC3_READ, vfArgsRead(w.fhF, 0, 8))
	case "fsstat":
		return nfs(NFSPROC3_FSSTAT, vfArgsFH(w.root))
	case "fsinfo":
		return nfs(NFSPROC3_FSINFO, vfArgsFH(w.root))
	case "pathconf":
		return nfs(NFSPROC3_PATHCONF, vfArgsFH(w.root))
	case "write":
		return nfs(NFSPROC3_WRITE, vfArgsWrite(w.fhF, 0, 2, []byte("pl")))
	case "create":
		return nfs(NFSPROC3_CREATE, vfArgsCreate(w.root, w.nextName("c"), 0, mode, verf))
	case "mkdir":
		return nfs(NFSPROC3_MKDIR, vfArgsMkdir(w.root, w.nextName("m"), mode))
	case "symlink":
		return nfs(NFSPROC3_SYMLINK, vfArgsSymlink(w.root, w.nextName("s"), mode, "f"))
	case "remove":
		return nfs(NFSPROC3_REMOVE, vfArgsDirOp(w.root, w.victim("v")))
	case "rmdir":
		return nfs(NFSPROC3_RMDIR, vfArgsDirOp(w.root, w.victim("rd")))
	case "rename":
		v := w.victim("v")
		return nfs(NFSPROC3_RENAME, vfArgsRename(w.root, v, w.root, v+"x"))
	case "setattr":
		return nfs(NFSPROC3_SETATTR, vfArgsSetattr(w.fhF, vfSattr{Mode: u32p(0600)}, nil))
	case "commit":
		return nfs(NFSPROC3_COMMIT, vfArgsCommit(w.fhF, 0, 0))
	case "link":
		return nfs(NFSPROC3_LINK, vfArgsLink(w.fhF, w.root, w.nextName("l")))
	case "bigread":
		a, b, c, d, _, e, f := nfs(NFSPROC3_READ, vfArgsRead(w.fhBig, 0, 70000))
		return a, b, c, d, true, e, f
	case "bigwrite":
		a, b, c, d, _, e, f := nfs(NFSPROC3_WRITE, vfArgsWrite(w.fhBig, 0, 2, bytes.Repeat([]byte("w"), 65537)))
		return a, b, c, d, true, e, f
	case "readdir":
		return nfs(NFSPROC3_READDIR, vfArgsReaddir(w.fhD, 0, verf, 4096))
	case "readdirplus":
		return nfs(NFSPROC3_READDIRPLUS, vfArgsReaddirplus(w.fhD, 0, verf, 4096, 8192))
	case "mnt":
		return MOUNT_PROGRAM, MOUNT_V3, 1, str("/"), false, "MOUNT3.MNT", true
	case "mnull":
		return MOUNT_PROGRAM, MOUNT_V3, 0, nil, false, "", false
	case "mnull1":
		return MOUNT_PROGRAM, 1, 0, nil, false, "", false
	case "umnt":
		return MOUNT_PROGRAM, MOUNT_V3, 3, str("/"), false, "", false
	case "umntall":
		return MOUNT_PROGRAM, MOUNT_V3, 4, nil, false, "", false
	case "badprog":
		return 100099, 3, 1, vfArgsFH(w.fhF), false, "-", false
	case "badprog2":
		return 100000, 2, 0, nil, false, "-", false
	case "badvers":
		return NFS_PROGRAM, 2, 1, vfArgsFH(w.fhF), false, "-", false
	case "badvers4":
		return NFS_PROGRAM, 4, 1, vfArgsFH(w.fhF), false, "-", false
	case "mbadvers":
		return MOUNT_PROGRAM, 2, 1, str("/"), false, "-", false
	case "badproc":
		return NFS_PROGRAM, NFS_V3, 22, vfArgsFH(w.fhF), false, "-", false
	case "badproc99":
		return NFS_PROGRAM, NFS_V3, 99, nil, false, "-", false
	case "mbadproc":
		return MOUNT_PROGRAM, MOUNT_V3, 9, nil, false, "-", false
	}
	w.t.Fatalf("unknown call kind %q", kind)
	return
}

// record builds the bytes of one call (record marks included) and its step line.
func (w *vfplWorld) record(cl *vfplConn, sp vfplSpec) ([]byte, *vfplCall) {
	w.mu.Lock()
	w.xid++
	xid := w.xid
	w.mu.Unlock()
	var msg bytes.Buffer
	call := &vfplCall{c: cl.c, xid: xid, cl: cl}
	step := M{"ev": "call", "c": cl.c, "xid": int(xid), "kind": sp.Kind, "flavor": sp.Flav, "frags": sp.Frags}
	if strings.HasPrefix(sp.Kind, "g.") {
		call.garbage = true
		switch sp.Kind {
		case "g.short":
			xdrEncodeUint32(&msg, xid)
			xdrEncodeUint32(&msg, RPC_CALL)
		case "g.reply":
			for _, v := range []uint32{xid, RPC_REPLY, 2, NFS_PROGRAM, NFS_V3, 0, 0, 0, 0, 0} {
				xdrEncodeUint32(&msg, v)
			}
		case "g.credlen":
			for _, v := range []uint32{xid, RPC_CALL, 2, NFS_PROGRAM, NFS_V3, 0, AUTH_SYS, 0x7ffffff0} {
				xdrEncodeUint32(&msg, v)
			}
		case "g.empty":
		default:
			w.t.Fatalf("unknown garbage kind %q", sp.Kind)
		}
		step["prog"], step["vers"], step["proc"], step["large"], step["garbage"], step["flav"] = 0, 0, 0, false, true, "NONE"
	} else {
		prog, vers, proc, args, large, schema, status := w.build(sp.Kind)
		call.schema, call.status = schema, status
		for _, v := range []uint32{xid, RPC_CALL, 2, prog, vers, proc} {
			xdrEncodeUint32(&msg, v)
		}
		flav := "SYS"
		switch sp.Flav {
		case "NONE":
			flav = "NONE"
			xdrEncodeUint32(&msg, AUTH_NONE)
			xdrEncodeUint32(&msg, 0)
		case "SYSU":
			xdrEncodeUint32(&msg, AUTH_SYS)
			vfEncOpaque(&msg, vfAuthSysBody(7, "vfpl", 1000, 1000, []uint32{4, 24}))
		case "BAD":
			flav = "BAD"
			xdrEncodeUint32(&msg, 6) // RPCSEC_GSS: not supported
			vfEncOpaque(&msg, []byte{0, 0, 0, 1})
		case "BADSYS":
			flav = "BAD"
			xdrEncodeUint32(&msg, AUTH_SYS) // AUTH_SYS whose body does not decode
			xdrEncodeUint32(&msg, 0)
		default:
			xdrEncodeUint32(&msg, AUTH_SYS)
			vfEncOpaque(&msg, vfAuthSysBody(1, "vf", 0, 0, nil))
		}
		xdrEncodeUint32(&msg, AUTH_NONE)
		xdrEncodeUint32(&msg, 0)
		msg.Write(args)
		step["prog"], step["vers"], step["proc"], step["large"], step["garbage"], step["flav"] = int(prog), int(vers), int(proc), large, false, flav
	}
	call.step = step
	body := msg.Bytes()
	var out bytes.Buffer
	mark := func(n int, last bool) {
		v := uint32(n)
		if last {
			v |= LastFragmentFlag
		}
		var h [4]byte
		binary.BigEndian.PutUint32(h[:], v)
		out.Write(h[:])
	}
	if sp.Frags == 2 && len(body) >= 8 {
		cut := 4 * (1 + int(xid)%(len(body)/4-1))
		mark(cut, false)
		out.Write(body[:cut])
		mark(len(body)-cut, true)
		out.Write(body[cut:])
	} else {
		mark(len(body), true)
		out.Write(body)
	}
	return out.Bytes(), call
}

// doCalls sends one or more calls back to back on connection c (pipelined when more than one) and waits
// until each is answered or the connection has ended.
func (w *vfplWorld) doCalls(c int, specs []vfplSpec) {
	w.mu.Lock()
	cl := w.conns[c]
	w.mu.Unlock()
	var wire bytes.Buffer
	var calls []*vfplCall
	for _, sp := range specs {
		b, call := w.record(cl, sp)
		wire.Write(b)
		calls = append(calls, call)
		cl.mu.Lock()
		cl.sent = append(cl.sent, call.xid)
		cl.mu.Unlock()
	}
	for _, call := range calls {
		call.step["inv"] = w.stamp() // pipelined calls keep their order when lines are sorted
		call.step["piped"] = len(calls) > 1
	}
	cl.conn.SetWriteDeadline(time.Now().Add(3 * time.Second))
	cl.conn.Write(wire.Bytes()) // a server that closed the connection makes this fail: the calls stay unanswered
	for _, call := range calls {
		xid := call.xid
		answered := false
		vfplWait(3*time.Second, func() bool {
			_, answered = cl.replyOf(xid)
			return answered || cl.isClosed()
		})
		if !answered {
			_, answered = cl.replyOf(xid)
		}
		// the goroutine of an admitted call may still be at work after its reply was read
		vfplWait(2*time.Second, func() bool {
			w.mu.Lock()
			defer w.mu.Unlock()
			adm, rel := false, false
			for _, e := range w.hc[xid] {
				adm = adm || e.name == "hc.admit"
				rel = rel || strings.HasPrefix(e.name, "hc.release")
			}
			return !adm || rel
		})
		call.step["res"] = w.stamp()
		call.step["closed"] = cl.isClosed()
		_, call.step["reaped"] = w.cmHas(cl.key, "cm.reap")
		w.post(call.step)
		call.step["tok"] = w.tokens(cl.addr)
		w.mu.Lock()
		w.calls = append(w.calls, call)
		w.steps = append(w.steps, call.step)
		w.mu.Unlock()
	}
}

// tokens reads the global and the per-address bucket of the live limiter (-1: no limiter / no bucket yet).
func (w *vfplWorld) tokens(addr string) M {
	out := M{"g": -1, "ip": -1}
	rl := w.n.rateLimiter.Load()
	if rl == nil {
		return out
	}
	out["g"] = int(rl.globalLimiter.Tokens() + 0.5)
	rl.perIPLimiter.mu.RLock()
	tb := rl.perIPLimiter.limiters[addr]
	rl.perIPLimiter.mu.RUnlock()
	if tb != nil {
		out["ip"] = int(tb.Tokens() + 0.5)
	}
	return out
}

func (w *vfplWorld) doClose(c int) {
	w.mu.Lock()
	cl := w.conns[c]
	w.mu.Unlock()
	inv := w.stamp()
	cl.conn.Close()
	cl.clientClosed = true
	unreg := false
	if cl.served {
		unreg = vfplWait(3*time.Second, func() bool { _, ok := w.cmHas(cl.key, "cm.unreg"); return ok })
	}
	w.addStep(w.post(M{"ev": "close", "c": c, "inv": inv, "res": w.stamp(), "served": cl.served, "unreg": unreg}))
}

func (w *vfplWorld) doUpdate(p vfplPol, badSquash bool) {
	w.mu.Lock()
	if !badSquash {
		w.lab++
		p.Lab = w.lab
	} else {
		p.Lab = 15
	}
	w.up = nil
	w.mu.Unlock()
	opts := p.options(w.cfg)
	if badSquash {
		opts.Squash = "all"
	}
	inv := w.stamp()
	err := w.n.UpdatePolicyOptions(opts)
	res := w.stamp()
	w.mu.Lock()
	hooks := append([]string{}, w.up...)
	w.mu.Unlock()
	w.addStep(w.post(M{"ev": "update", "inv": inv, "res": res, "ok": err == nil, "pol": p, "hooks": hooks}))
}

func (w *vfplWorld) doTick() {
	inv := w.stamp()
	vfClockAdvance(time.Hour)
	w.addStep(w.post(M{"ev": "tick", "inv": inv, "res": w.stamp()}))
}

func (w *vfplWorld) doPoolStop() {
	inv := w.stamp()
	w.n.workerPool.Stop()
	w.addStep(w.post(M{"ev": "poolstop", "inv": inv, "res": w.stamp()}))
}

func (w *vfplWorld) doStop() {
	inv := w.stamp()
	err := w.srv.Stop()
	w.stopped = true
	w.mu.Lock()
	var cls []*vfplConn
	for _, cl := range w.conns {
		cls = append(cls, cl)
	}
	w.mu.Unlock()
	all := vfplWait(3*time.Second, func() bool {
		for _, cl := range cls {
			if !cl.clientClosed && !cl.isClosed() {
				return false
			}
		}
		return true
	})
	w.mu.Lock()
	hooks := append([]string{}, w.sv...)
	w.mu.Unlock()
	w.addStep(w.post(M{"ev": "stop", "inv": inv, "res": w.stamp(), "ok": err == nil, "allclosed": all, "hooks": hooks}))
}

// doIdle leaves connection c alone until the idle reaper has closed it (IdleMs must be set).
func (w *vfplWorld) doIdle(c int) {
	w.mu.Lock()
	cl := w.conns[c]
	w.mu.Unlock()
	inv := w.stamp()
	reaped := vfplWait(5*time.Second, func() bool { _, ok := w.cmHas(cl.key, "cm.reap"); return ok })
	vfplWait(2*time.Second, cl.isClosed)
	vfplWait(2*time.Second, func() bool { _, ok := w.cmHas(cl.key, "cm.unreg"); return ok })
	w.addStep(w.post(M{"ev": "idle", "c": c, "inv": inv, "res": w.stamp(), "reaped": reaped, "closed": cl.isClosed()}))
}

// ---------------------------------------------------------------- end of a history

func vfplParseReply(wire []byte, schema string, status bool) M {
	out := M{"kind": "accepted", "accept": -1, "status": -1, "shape": false, "rej": -1, "auth": -1}
	if len(wire) < 12 || binary.BigEndian.Uint32(wire[4:8]) != RPC_REPLY {
		out["kind"] = "malformed"
		return out
	}
	if binary.BigEndian.Uint32(wire[8:12]) == MSG_DENIED {
		out["kind"] = "denied"
		if len(wire) >= 16 {
			out["rej"] = int(binary.BigEndian.Uint32(wire[12:16]) & 0xffff)
		}
		if len(wire) >= 20 {
			out["auth"] = int(binary.BigEndian.Uint32(wire[16:20]) & 0xffff)
		}
		out["shape"] = len(wire) == 20
		return out
	}
	if binary.BigEndian.Uint32(wire[8:12]) != MSG_ACCEPTED {
		out["kind"] = "malformed"
		return out
	}
	r := &vfRaw{Wire: wire}
	vfParseRPCReply(r)
	if len(wire) < 24 {
		out["kind"] = "malformed"
		return out
	}
	out["accept"] = int(r.Accept & 0xffff)
	switch {
	case r.Accept == PROG_MISMATCH:
		out["shape"] = len(r.Body) == 8
	case r.Accept != SUCCESS:
		out["shape"] = len(r.Body) == 0
	case schema == "" || schema == "-":
		out["shape"] = len(r.Body) == 0
	default:
		res := vfSch.Decode(schema, r.Body)
		if len(r.Body) >= 4 && status {
			s := binary.BigEndian.Uint32(r.Body[:4])
			if s > 20000 {
				s = 20000
			}
			out["status"] = int(s)
		}
		out["shape"] = res.Err == nil && res.Trailing == 0
	}
	return out
}

// finish winds the history down and writes its lines.
func (w *vfplWorld) finish(tr *vfTrace, hist int) (int, M) {
	// every admitted call must have released before the backend log is attributed
	vfplWait(2*time.Second, func() bool {
		w.mu.Lock()
		defer w.mu.Unlock()
		for _, evs := range w.hc {
			adm, rel := false, false
			for _, e := range evs {
				adm = adm || e.name == "hc.admit"
				rel = rel || strings.HasPrefix(e.name, "hc.release")
			}
			if adm && !rel {
				return false
			}
		}
		return true
	})
	time.Sleep(2 * time.Millisecond) // a reply written twice arrives right behind the first one
	w.mu.Lock()
	var cls []*vfplConn
	for _, cl := range w.conns {
		cls = append(cls, cl)
	}
	w.mu.Unlock()
	sort.Slice(cls, func(i, j int) bool { return cls[i].c < cls[j].c })
	for _, cl := range cls {
		if !cl.clientClosed {
			cl.conn.Close()
			cl.clientClosed = true
		}
	}
	if !w.stopped {
		w.srv.Stop()
	}
	w.n.Close()
	vfplCur.Store(nil)
	w.fs.Tag, w.fs.Gate = nil, nil
	bcalls := w.fs.TakeCalls()
	type agg struct {
		n, mut int
		vers   map[int]bool
		ops    []string
	}
	per := map[uint32]*agg{}
	stray := 0
	for _, bc := range bcalls {
		goid, lab := bc.Tag>>4, int(bc.Tag&15)
		xid, ok := w.relGo[goid]
		if !ok {
			stray++
			continue
		}
		a := per[xid]
		if a == nil {
			a = &agg{vers: map[int]bool{}}
			per[xid] = a
		}
		a.n++
		if vfplMutating(bc.Op, bc.Flags) {
			a.mut++
		}
		a.vers[lab] = true
		if len(a.ops) < 6 {
			a.ops = append(a.ops, bc.Op)
		}
	}
	known := map[uint32]bool{}
	gates := M{}
	for _, call := range w.calls {
		known[call.xid] = true
		cl, st := call.cl, call.step
		cl.mu.Lock()
		nrep, ridx := 0, -1
		var wire []byte
		for i, r := range cl.replies {
			if r.xid == call.xid {
				if nrep == 0 {
					ridx, wire = i, r.wire
				}
				nrep++
			}
		}
		sidx := -1
		for i, x := range cl.sent {
			if x == call.xid {
				sidx = i
			}
		}
		cl.mu.Unlock()
		st["nrep"], st["ridx"], st["sidx"] = nrep, ridx, sidx
		if nrep == 0 {
			st["rep"] = M{"kind": "none", "accept": -1, "status": -1, "shape": false, "rej": -1, "auth": -1}
		} else {
			st["rep"] = vfplParseReply(wire, call.schema, call.status)
		}
		hooks, admv, route := []string{}, -1, "none"
		for _, e := range w.hc[call.xid] {
			hooks = append(hooks, e.name)
			if e.name == "hc.admit" {
				admv = e.lab
			}
			if e.name == "hc.admit" || e.name == "hc.jukebox" {
				if _, isLoop := w.connGo[e.goid]; isLoop {
					route = "inline"
				} else {
					route = "worker"
				}
			}
		}
		st["hooks"], st["admv"], st["route"] = hooks, admv, route
		bc := M{"n": 0, "mut": 0, "vers": []int{}, "ops": []string{}}
		if a := per[call.xid]; a != nil {
			vs := []int{}
			for v := range a.vers {
				vs = append(vs, v)
			}
			sort.Ints(vs)
			bc = M{"n": a.n, "mut": a.mut, "vers": vs, "ops": a.ops}
		}
		st["bcalls"] = bc
		st["addr"], st["low"] = cl.addr, cl.low
		gates[fmt.Sprintf("%v/%v", st["rep"].(M)["kind"], st["rep"].(M)["accept"])] = true
	}
	// backend calls made for an xid no call of the history carries (should not happen)
	for x := range per {
		if !known[x] {
			stray += per[x].n
		}
	}
	aliens := []M{}
	for _, cl := range cls {
		n := 0
		cl.mu.Lock()
		for _, r := range cl.replies {
			mine := false
			for _, x := range cl.sent {
				mine = mine || x == r.xid
			}
			if !mine {
				n++
			}
		}
		cl.mu.Unlock()
		aliens = append(aliens, M{"c": cl.c, "alien": n})
	}
	w.srv.connMutex.Lock()
	cnt := w.srv.connCount
	w.srv.connMutex.Unlock()
	sort.SliceStable(w.steps, func(i, j int) bool { return w.steps[i]["inv"].(int64) < w.steps[j]["inv"].(int64) })
	opb := M{}
	for _, ot := range []string{"read_large", "write_large", "readdir", "mount"} {
		opb[ot] = w.opB[ot]
	}
	reset := M{"ev": "reset", "hist": hist, "kind": w.cfg.Kind, "mode": w.cfg.Mode, "maxconn": w.cfg.MaxConn,
		"b": M{"cn": w.cfg.BC, "ip": w.cfg.BI, "g": w.cfg.BG}, "ob": opb, "pol": w.cfg.Pol0, "v6": w.v6}
	tr.Emit(reset)
	for _, s := range w.steps {
		tr.Emit(s)
	}
	byKey := map[string]int{}
	for _, cl := range cls {
		byKey[cl.key] = cl.c
	}
	cmev := []M{}
	for _, e := range w.cmAll {
		cmev = append(cmev, M{"ev": e.ev, "c": byKey[e.key], "count": e.count, "max": e.max})
	}
	tr.Emit(M{"ev": "end", "stray": stray, "aliens": aliens, "cnt": cnt, "cm": cmev, "inv": w.stamp()})
	return len(w.steps) + 2, gates
}

// ---------------------------------------------------------------- generators

var vfplAddrs4 = []string{"127.0.0.1", "127.0.0.2", "127.0.0.3"}

func (w *vfplWorld) addrs() []string {
	if w.v6 {
		return append(append([]string{}, vfplAddrs4...), "::1")
	}
	return vfplAddrs4
}

var vfplKinds = map[string][]string{
	"void":  {"null", "mnull", "mnull1", "umnt", "umntall"},
	"get":   {"getattr", "lookup", "access", "read", "fsstat", "fsinfo", "pathconf"},
	"mut":   {"write", "create", "mkdir", "symlink", "remove", "rmdir", "rename", "setattr", "commit", "link"},
	"op":    {"bigread", "bigwrite", "readdir", "readdirplus", "mnt"},
	"undis": {"badprog", "badprog2", "badvers", "badvers4", "mbadvers", "badproc", "badproc99", "mbadproc"},
	"junk":  {"g.short", "g.reply", "g.credlen", "g.empty"},
}

func vfplPick(r *rand.Rand, l []string) string { return l[r.Intn(len(l))] }

func vfplRandSpec(r *rand.Rand, junk bool) vfplSpec {
	var kind string
	switch x := r.Intn(100); {
	case x < 10:
		kind = vfplPick(r, vfplKinds["void"])
	case x < 35:
		kind = vfplPick(r, vfplKinds["get"])
	case x < 65:
		kind = vfplPick(r, vfplKinds["mut"])
	case x < 80:
		kind = vfplPick(r, vfplKinds["op"])
	case x < 96 || !junk:
		kind = vfplPick(r, vfplKinds["undis"])
	default:
		kind = vfplPick(r, vfplKinds["junk"])
	}
	flav := "SYS"
	switch x := r.Intn(100); {
	case x < 12:
		flav = "NONE"
	case x < 22:
		flav = "SYSU"
	case x < 30:
		flav = "BAD"
	case x < 36:
		flav = "BADSYS"
	}
	return vfplSpec{Kind: kind, Flav: flav, Frags: 1 + r.Intn(4)/3}
}

func vfplRandPol(r *rand.Rand, addrs []string, rlp int) vfplPol {
	p := vfplPol{Allowed: []string{}, Secure: r.Intn(100) < 18, RO: r.Intn(100) < 40, RL: r.Intn(100) < rlp}
	if r.Intn(100) < 40 {
		for _, a := range addrs {
			if r.Intn(2) == 0 {
				p.Allowed = append(p.Allowed, a)
			}
		}
		if len(p.Allowed) == 0 {
			p.Allowed = append(p.Allowed, addrs[r.Intn(len(addrs))])
		}
	}
	return p
}

type vfplGen func(t *testing.T, r *rand.Rand, seed int64) *vfplWorld

func (w *vfplWorld) openConns() []int {
	w.mu.Lock()
	defer w.mu.Unlock()
	var out []int
	for c, cl := range w.conns {
		if !cl.clientClosed {
			out = append(out, c)
		}
	}
	sort.Ints(out)
	return out
}

// gates: a sequential mix of every class of call under random policies, one or two updates in between
func vfplGenGates(t *testing.T, r *rand.Rand, seed int64) *vfplWorld {
	cfg := vfplCfg{Kind: "gates", Mode: "seq", MaxConn: 2, BC: 50, BI: 80, BG: 100}
	w0 := vfplAddrs4
	cfg.Pol0 = vfplRandPol(r, w0, 40)
	w := vfplNewWorld(t, cfg, seed)
	ad := w.addrs()
	nc := 0
	open := func() {
		nc++
		a := ad[r.Intn(len(ad))]
		if live := w.n.policy.Load().AllowedIPs; len(live) > 0 && r.Intn(100) < 65 {
			a = live[r.Intn(len(live))] // mostly clients the list lets in
		}
		w.doOpen(nc, a, r.Intn(100) < 55)
	}
	open()
	open()
	upd := 4 + r.Intn(8)
	for i := 0; i < 18; i++ {
		if i == upd || (i == upd+5 && r.Intn(2) == 0) {
			w.doUpdate(vfplRandPol(r, ad, 40), false)
		}
		if i == upd+2 && r.Intn(3) == 0 {
			w.doUpdate(vfplRandPol(r, ad, 40), true) // rejected: Squash cannot change at run time
		}
		oc := w.openConns()
		if len(oc) == 0 || r.Intn(100) < 8 {
			if len(oc) >= 3 {
				w.doClose(oc[r.Intn(len(oc))])
			} else {
				open()
			}
			continue
		}
		c := oc[r.Intn(len(oc))]
		if r.Intn(100) < 12 {
			w.doCalls(c, []vfplSpec{vfplRandSpec(r, false), vfplRandSpec(r, false), vfplRandSpec(r, false)})
		} else {
			w.doCalls(c, []vfplSpec{vfplRandSpec(r, i > 12)})
		}
		if r.Intn(100) < 6 {
			w.doClose(c)
		}
	}
	return w
}

// sweep: every procedure once under a read-only and once under a read-write policy (the flip happens at run time),
// from a client every gate before the handler lets through
func vfplGenSweep(t *testing.T, r *rand.Rand, seed int64) *vfplWorld {
	cfg := vfplCfg{Kind: "sweep", Mode: "seq", MaxConn: 2, BC: 200, BI: 300, BG: 400}
	ro := r.Intn(2) == 0
	cfg.Pol0 = vfplPol{Allowed: []string{}, RO: ro, RL: r.Intn(2) == 0, Secure: r.Intn(2) == 0}
	w := vfplNewWorld(t, cfg, seed)
	ad := w.addrs()
	w.doOpen(1, ad[r.Intn(len(ad))], true)
	var all []string
	for _, g := range []string{"void", "get", "mut", "op", "undis"} {
		all = append(all, vfplKinds[g]...)
	}
	for phase := 0; phase < 2; phase++ {
		r.Shuffle(len(all), func(i, j int) { all[i], all[j] = all[j], all[i] })
		for _, k := range all {
			w.doCalls(1, []vfplSpec{{Kind: k, Flav: "SYS", Frags: 1}})
		}
		if phase == 0 {
			w.doUpdate(vfplPol{Allowed: []string{ad[0], ad[1], ad[2], "::1"}, RO: !ro, RL: r.Intn(2) == 0, Secure: true}, false)
		}
	}
	return w
}

// limits: connection-level rate limiting with tiny budgets, a tick and a limiter replaced by an update
func vfplGenLimits(t *testing.T, r *rand.Rand, seed int64) *vfplWorld {
	cfg := vfplCfg{Kind: "limits", Mode: "seq", MaxConn: 3, BC: 2 + r.Intn(3), BI: 3 + r.Intn(4), BG: 5 + r.Intn(5)}
	cfg.Pol0 = vfplPol{Allowed: []string{}, RL: r.Intn(100) < 80, RO: r.Intn(2) == 0}
	w := vfplNewWorld(t, cfg, seed)
	ad := w.addrs()
	a1, a2 := ad[r.Intn(len(ad))], ad[r.Intn(len(ad))]
	w.doOpen(1, a1, false)
	w.doOpen(2, a1, false)
	w.doOpen(3, a2, false)
	cheap := []string{"null", "getattr", "lookup", "write", "create", "badproc", "mnull", "access", "remove"}
	tick, upd := 6+r.Intn(6), 10+r.Intn(8)
	for i := 0; i < 22; i++ {
		if i == tick {
			w.doTick()
		}
		if i == upd {
			w.doUpdate(vfplPol{Allowed: []string{}, RL: r.Intn(100) < 70, RO: r.Intn(2) == 0}, false)
		}
		c := 1 + r.Intn(3)
		if r.Intn(100) < 15 {
			w.doCalls(c, []vfplSpec{{Kind: vfplPick(r, cheap), Flav: "SYS", Frags: 1}, {Kind: vfplPick(r, cheap), Flav: "SYS", Frags: 1}})
		} else {
			fl := "SYS"
			if r.Intn(10) == 0 {
				fl = "BAD" // a call refused by authentication was charged by the limiter before
			}
			w.doCalls(c, []vfplSpec{{Kind: vfplPick(r, cheap), Flav: fl, Frags: 1}})
		}
	}
	return w
}

// oplimit: the per-operation buckets of large READ / WRITE, READDIR(PLUS), MNT
func vfplGenOpLimit(t *testing.T, r *rand.Rand, seed int64) *vfplWorld {
	cfg := vfplCfg{Kind: "oplimit", Mode: "seq", MaxConn: 2, BC: 200, BI: 300, BG: 400}
	cfg.Pol0 = vfplPol{Allowed: []string{}, RL: true, RO: false}
	w := vfplNewWorld(t, cfg, seed)
	ad := w.addrs()
	a1 := ad[r.Intn(len(ad))]
	a2 := a1
	if r.Intn(100) < 25 {
		a2 = ad[r.Intn(len(ad))]
	}
	w.doOpen(1, a1, false)
	w.doOpen(2, a2, true)
	burst := func(kind string, n int) {
		for i := 0; i < n; i++ {
			k := kind
			if kind == "readdir" && r.Intn(2) == 0 {
				k = "readdirplus"
			}
			w.doCalls(1+r.Intn(2), []vfplSpec{{Kind: k, Flav: "SYS", Frags: 1}})
		}
	}
	order := []string{"mnt", "readdir", "bigwrite", "bigread"}
	r.Shuffle(len(order), func(i, j int) { order[i], order[j] = order[j], order[i] })
	for _, k := range order {
		burst(k, w.opB[map[string]string{"mnt": "mount", "readdir": "readdir", "bigwrite": "write_large", "bigread": "read_large"}[k]]+1+r.Intn(2))
	}
	switch r.Intn(3) {
	case 0:
		w.doTick()
	case 1:
		w.doUpdate(vfplPol{Allowed: []string{}, RL: true, RO: true}, false) // fresh limiter, read-only: large WRITE is refused before its bucket
	case 2:
		w.doUpdate(vfplPol{Allowed: []string{}, RL: false}, false)
	}
	for _, k := range order {
		burst(k, 1+r.Intn(2))
	}
	burst("bigwrite", 5)
	return w
}

// accept: allow-list at connection level, MaxConnections, then the allow-list per request
func vfplGenAccept(t *testing.T, r *rand.Rand, seed int64) *vfplWorld {
	cfg := vfplCfg{Kind: "accept", Mode: "seq", MaxConn: 2, BC: 50, BI: 80, BG: 100}
	cfg.Pol0 = vfplPol{Allowed: []string{"127.0.0.1", "127.0.0.3"}, RL: r.Intn(2) == 0, Secure: r.Intn(4) == 0}
	w := vfplNewWorld(t, cfg, seed)
	one := func(c int) {
		w.doCalls(c, []vfplSpec{{Kind: vfplPick(r, []string{"getattr", "create", "null", "mnt"}), Flav: "SYS", Frags: 1}})
	}
	w.doOpen(1, "127.0.0.1", r.Intn(2) == 0)
	one(1)
	w.doOpen(2, "127.0.0.2", true) // not on the list
	one(2)
	w.doOpen(3, "127.0.0.3", true)
	one(3)
	w.doOpen(4, "127.0.0.1", true) // over MaxConnections
	one(4)
	w.doClose(1 + 2*r.Intn(2))
	last := "127.0.0.1"
	if w.v6 {
		last = "::1"
	}
	w.doOpen(5, last, true)
	one(5)
	w.doClose(5)
	w.doUpdate(vfplPol{Allowed: []string{}, RO: r.Intn(2) == 0}, false)
	w.doOpen(6, last, true)
	one(6)
	w.doUpdate(vfplPol{Allowed: []string{last}, Secure: r.Intn(2) == 0}, false) // established connections: judged per request now
	for _, c := range w.openConns() {
		one(c)
	}
	return w
}

// lifecycle: undecodable records, pipelining, EOF, idle reaping, Stop
func vfplGenLifecycle(t *testing.T, r *rand.Rand, seed int64) *vfplWorld {
	reap := r.Intn(2) == 0
	cfg := vfplCfg{Kind: "lifecycle", Mode: "seq", MaxConn: 2, BC: 50, BI: 80, BG: 100}
	cfg.Pol0 = vfplPol{Allowed: []string{}, RL: r.Intn(2) == 0}
	if reap {
		cfg.IdleMs = 150
		cfg.Pol0.RL = false // a reaped connection ends at a moment the clock decides: no exact bucket ghost then
	}
	w := vfplNewWorld(t, cfg, seed)
	ad := w.addrs()
	w.doOpen(1, ad[r.Intn(len(ad))], false)
	w.doOpen(2, ad[r.Intn(len(ad))], false)
	g := vfplPick(r, vfplKinds["junk"])
	w.doCalls(1, []vfplSpec{{Kind: "getattr", Flav: "SYS", Frags: 2}, {Kind: g, Frags: 1}, {Kind: "create", Flav: "SYS", Frags: 1}})
	w.doCalls(1, []vfplSpec{{Kind: "null", Flav: "SYS", Frags: 1}})
	w.doCalls(2, []vfplSpec{{Kind: "write", Flav: "SYS", Frags: 1}})
	w.doOpen(3, ad[r.Intn(len(ad))], false) // the slot of connection 1 is free again
	w.doCalls(3, []vfplSpec{{Kind: "lookup", Flav: "NONE", Frags: 1}})
	if reap {
		w.doIdle(2)
		w.doCalls(2, []vfplSpec{{Kind: "getattr", Flav: "SYS", Frags: 1}})
		w.doOpen(4, ad[r.Intn(len(ad))], false)
		w.doCalls(4, []vfplSpec{{Kind: "getattr", Flav: "SYS", Frags: 1}})
	} else {
		w.doClose(2)
		w.doOpen(4, ad[r.Intn(len(ad))], false)
		w.doCalls(4, []vfplSpec{{Kind: "mkdir", Flav: "SYS", Frags: 1}})
		w.doStop()
		w.doCalls(4, []vfplSpec{{Kind: "getattr", Flav: "SYS", Frags: 1}})
		w.doCalls(3, []vfplSpec{{Kind: "null", Flav: "SYS", Frags: 1}})
	}
	return w
}

// poolstop: the worker pool refuses, HandleCall runs on the connection goroutine
func vfplGenPoolStop(t *testing.T, r *rand.Rand, seed int64) *vfplWorld {
	cfg := vfplCfg{Kind: "poolstop", Mode: "seq", MaxConn: 2, BC: 6, BI: 80, BG: 100}
	cfg.Pol0 = vfplRandPol(r, vfplAddrs4[:1], 50)
	w := vfplNewWorld(t, cfg, seed)
	w.doOpen(1, "127.0.0.1", true)
	w.doOpen(2, "127.0.0.1", false)
	for i := 0; i < 12; i++ {
		if i == 3 {
			w.doPoolStop()
		}
		if i == 7 {
			w.doUpdate(vfplRandPol(r, vfplAddrs4[:1], 50), false)
		}
		w.doCalls(1+r.Intn(2), []vfplSpec{vfplRandSpec(r, false)})
	}
	return w
}

// conc: clients and an updater running freely
func vfplGenConc(t *testing.T, r *rand.Rand, seed int64) *vfplWorld {
	tiny := r.Intn(2) == 0
	cfg := vfplCfg{Kind: "conc", Mode: "conc", MaxConn: 2 + r.Intn(2), BC: 50, BI: 80, BG: 100}
	if tiny {
		cfg.BC, cfg.BI, cfg.BG = 2+r.Intn(2), 3+r.Intn(3), 5+r.Intn(4)
	}
	cfg.Pol0 = vfplRandPol(r, vfplAddrs4, 60)
	w := vfplNewWorld(t, cfg, seed)
	w.slow = int64(200 + r.Intn(1500))
	ad := w.addrs()
	ncl := 2 + r.Intn(2)
	type plan struct {
		c     int
		addr  string
		low   bool
		specs [][]vfplSpec
		delay []int
	}
	var plans []plan
	for i := 1; i <= ncl; i++ {
		p := plan{c: i, addr: ad[r.Intn(len(ad))], low: r.Intn(100) < 60}
		if len(cfg.Pol0.Allowed) > 0 && r.Intn(100) < 65 {
			p.addr = cfg.Pol0.Allowed[r.Intn(len(cfg.Pol0.Allowed))]
		}
		for j := 0; j < 4+r.Intn(4); j++ {
			if r.Intn(100) < 20 {
				p.specs = append(p.specs, []vfplSpec{vfplRandSpec(r, false), vfplRandSpec(r, false)})
			} else {
				p.specs = append(p.specs, []vfplSpec{vfplRandSpec(r, j > 4)})
			}
			p.delay = append(p.delay, r.Intn(400))
		}
		plans = append(plans, p)
	}
	nu := 1 + r.Intn(2)
	var pols []vfplPol
	var udelay []int
	for u := 0; u < nu; u++ {
		pols = append(pols, vfplRandPol(r, ad, 60))
		udelay = append(udelay, 200+r.Intn(2500))
	}
	var wg sync.WaitGroup
	for _, p := range plans {
		wg.Add(1)
		go func(p plan) {
			defer wg.Done()
			w.doOpen(p.c, p.addr, p.low)
			for j, s := range p.specs {
				time.Sleep(time.Duration(p.delay[j]) * time.Microsecond)
				w.doCalls(p.c, s)
			}
			w.doClose(p.c)
		}(p)
	}
	wg.Add(1)
	go func() {
		defer wg.Done()
		for u := range pols {
			time.Sleep(time.Duration(udelay[u]) * time.Microsecond)
			// preferably while a request is at work in the backend, so that the drain is observable
			vfplWait(4*time.Millisecond, func() bool {
				w.mu.Lock()
				defer w.mu.Unlock()
				for _, evs := range w.hc {
					if len(evs) == 1 && evs[0].name == "hc.admit" {
						return true
					}
				}
				return false
			})
			w.doUpdate(pols[u], false)
		}
	}()
	wg.Wait()
	return w
}

// TestVF_Pipeline runs the seeded histories and writes pipeline.ndjson + pipeline.summary.json.
func TestVF_Pipeline(t *testing.T) {
	vfplClockCheck(t)
	vfplLowPort.Store(int32(vfSeed() % 300))
	seed := vfSeed()
	tr := vfNewTrace(t, "pipeline.ndjson")
	defer tr.Close()
	hook := vfplHook
	vfHookP.Store(&hook)
	defer vfHookP.Store(nil)
	type entry struct {
		name string
		gen  vfplGen
		n    int
	}
	plan := []entry{{"sweep", vfplGenSweep, 1}, {"gates", vfplGenGates, 5}, {"limits", vfplGenLimits, 3}, {"oplimit", vfplGenOpLimit, 1}, {"accept", vfplGenAccept, 2},
		{"lifecycle", vfplGenLifecycle, 3}, {"poolstop", vfplGenPoolStop, 1}, {"conc", vfplGenConc, 10}}
	if vfThorough() {
		for i := range plan {
			plan[i].n *= 8
		}
	}
	if k := vfEnvInt("VF_HIST_SCALE", 0); k > 0 {
		for i := range plan {
			plan[i].n *= k
		}
	}
	only := os.Getenv("VF_ONLY")
	hist, lines := 0, 0
	perKind := M{}
	forms := M{}
	var sample []M
	for _, e := range plan {
		for i := 0; i < e.n; i++ {
			hist++
			if only != "" && only != strconv.Itoa(hist) && only != e.name {
				continue
			}
			r := vfRand(seed, fmt.Sprintf("pipeline/%s/%d", e.name, i))
			vfClockSet(time.Unix(1_700_000_000, 0))
			w := e.gen(t, r, seed*1000+int64(hist))
			n, g := w.finish(tr, hist)
			lines += n
			for k := range g {
				forms[k] = true
			}
			if c, ok := perKind[e.name].(int); ok {
				perKind[e.name] = c + 1
			} else {
				perKind[e.name] = 1
			}
			if len(sample) == 0 {
				for _, s := range w.steps {
					if len(sample) < 12 {
						sample = append(sample, s)
					}
				}
			}
		}
	}
	vfWriteJSON(t, "pipeline.summary.json", M{"histories": hist, "lines": lines, "per_kind": perKind, "reply_forms": forms, "sample": sample})
}
